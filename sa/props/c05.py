"""C05 — compile-time state layout matches run-time state accesses (bookkeeping discipline + size agreement)."""
from .. import roles
from ..cfg import DefIndex, dominators, reachable
from ..facts import KIND, callee, place_fields
from ..rules import cover
from . import prims
from ..symex import PathLimit, SymEx, show

LEVEL = "other"
EXPLANATION = (
    "Static necessary conditions for layout/access agreement: (sizes) the cell-size function used for `self` cells agrees, "
    "variant by variant of Type, with the word-size function the runtimes copy by; scratch space reserved for state exchange "
    "in the WASM generator is never smaller than the words moved; (order) wherever the MIR generator creates a state cell, "
    "the cell's position among the sub-expressions' layouts in the published skeleton equals the position of the accessing "
    "instruction among their evaluations; (accounting) every emitted PushStateOffset(n) is added to the running sum that the "
    "function exit pops; (cursor) only push/pop (and the explicit reset) move the run-time state cursor, the VM sizes the "
    "state storage from the entry function's skeleton before executing it. Equality of cursor values and layout offsets on "
    "actual runs, and VM/WASM state-word equality, are not decided."
)
SKEL = "state_tree::tree::StateTreeSkeleton"
NOISE = {"into", "from", "clone", "deref", "as_ref", "borrow", "to_type", "into_iter", "as_slice", "unwrap", "expect", "read", "to_owned"}


def callee_names(facts, e, depth=0, seen=None):
    """callee short names mentioned in a symbolic value, descending into closures passed along"""
    out = set()
    seen = seen if seen is not None else set()
    if not isinstance(e, tuple) or depth > 12:
        return out
    if e and e[0] == "call":
        n = e[1].split("::")[-1]
        if n not in NOISE:
            out.add(n)
    if e and e[0] == "agg" and isinstance(e[1], str) and e[1].startswith("closure:"):
        cp = e[1][len("closure:"):]
        if cp not in seen:
            seen.add(cp)
            g = facts.fn(cp)
            if g is not None:
                for _, t in g.calls():
                    n = (callee(t) or "").split("::")[-1]
                    if n and n not in NOISE:
                        out.add(n)
    for x in e:
        if isinstance(x, tuple):
            out |= callee_names(facts, x, depth + 1, seen)
    return out


def value_sig(facts, e):
    x = e
    while x[0] in ("cast",):
        x = x[2]
    if x[0] == "agg" and len(x[2]) == 1 and not x[1].startswith("closure:"):
        return value_sig(facts, x[2][0])
    if x[0] == "k":
        return ("const", int(x[1]) if not isinstance(x[1], str) else x[1])
    # 1 + max(...) shapes keep their constant
    consts = set()

    def walk(y):
        if isinstance(y, tuple):
            if y and y[0] == "k" and isinstance(y[1], int) and not isinstance(y[1], bool):
                consts.add(y[1])
            for z in y:
                if isinstance(z, tuple):
                    walk(z)

    walk(x)
    return ("calls", tuple(sorted(callee_names(facts, x))), tuple(sorted(consts)))


def per_variant_sigs(facts, f, enum):
    cov = cover.coverage(facts, f, enum)
    if cov is None:
        return None, None
    out = {}
    for v in cov.names:
        tb = cov.arm_target(v)
        if tb is None:
            continue
        explicit = v in cov.primary_handled()
        sx = SymEx(f, payload_place=cov.primary.place, max_paths=64, facts=facts)
        try:
            paths = sx.run(tb)
        except PathLimit:
            out[v] = (explicit, None)
            continue
        sigs = set()
        for p in paths:
            if p.end != "return":
                continue
            r = p.env.get(0)
            if r is not None:
                sigs.add(value_sig(facts, r))
        out[v] = (explicit, sigs)
    return cov, out


def rule_sizes(ck, facts):
    R = "C05.sizes"
    ck.rule(R, "for every Type variant with an explicit arm in the `self`-cell size function (From<TypeNodeId> for StateType), the set of size templates equals that of TypeNodeId::word_size for the same variant; WASM scratch reservations derived from word_size are never reduced (no min/clamp/sub/div on the way to the bump increment)")
    lang = facts.crate(roles.LANG)
    st = [f for f in lang.fns if f.d.get("trait", "").endswith("convert::From") and f.d.get("self_ty", "").endswith("mir::StateType") and "TypeNodeId" in f.local_ty(1)]
    ws = [f for f in lang.fns if f.short.endswith("TypeNodeId>::word_size") or f.short.endswith("::word_size") and "types::" in f.short and f.kind == "assoc" and "TypeNodeId" in f.local_ty(1)]
    ck.require(R, len(st) == 1 and len(ws) >= 1, "anchor|size-functions", "StateType::from(TypeNodeId) / TypeNodeId::word_size not found (%d/%d)" % (len(st), len(ws)))
    if len(st) != 1 or not ws:
        return
    a_cov, a = per_variant_sigs(facts, st[0], roles.TYPE)
    b_cov, b = per_variant_sigs(facts, ws[0], roles.TYPE)
    ck.require(R, a is not None and b is not None, "anchor|size-matches", "the size functions do not match on Type")
    if not a or not b:
        return
    n = 0
    for v, (explicit, sigs) in sorted(a.items()):
        if not explicit or sigs is None:
            continue
        n += 1
        other = b.get(v, (False, None))[1]
        # compare as sets of templates; `word_size` may have more constant cases (e.g. String) than the cell function
        if other is None:
            ck.bad(R, "size|%s" % v, "word_size has no analysable arm for Type::%s" % v, ws[0].where())
            continue
        # a template that just calls word_size on the same type is the reference itself
        mine = {s for s in sigs if not (s[0] == "calls" and tuple(s[1]) == ("word_size",))}
        if mine <= other or {s[:2] for s in mine} <= {s[:2] for s in other}:
            ck.ok(R, "size|%s" % v, {"variant": v, "cell_size": sorted(map(str, mine)), "word_size": sorted(map(str, other))})
        else:
            ck.bad(R, "size|%s" % v, "size of a `self` cell of type %s is computed as %s but values of that type occupy %s words (word_size): the published layout and the words moved at run time disagree" % (v, sorted(map(str, mine - other)), sorted(map(str, other))), st[0].where())
    ck.floor(R, "type_variants_compared", n, 5)
    # scratch reservations in the wasm generator
    bumps = 0
    for f in lang.fns:
        if "::compiler::wasmgen" not in f.path or roles.is_derived(f) or f.kind == "promoted":
            continue
        if not any(fl and fl[-1] and "MemoryLayout::" in fl[-1] for b, s in f.all_stmts() if s[KIND] == "a" for fl in [place_fields(s[4])]):
            continue
        cov = cover.coverage(facts, f, roles.MIR_INSTR)
        starts = [(None, 0)]
        if cov and len(cov.primary_handled()) > 3:
            starts = [(v, cov.arm_target(v)) for v in sorted(cov.primary_handled())]
        for v, tb in starts:
            sx = SymEx(f, payload_place=cov.primary.place if cov and v else None, max_paths=48, max_steps=3000, facts=facts)
            try:
                paths = sx.run(tb)
            except PathLimit:
                paths = sx.paths
            seen = set()
            for p in paths:
                for e in p.events:
                    if e[0] != "store":
                        continue
                    txt = repr(e[1])
                    if "MemoryLayout::" not in txt:
                        continue
                    val = e[2]
                    vt = repr(val)
                    if "word_size" not in vt:
                        continue
                    key = (v, show(e[1])[-40:])
                    if key in seen:
                        continue
                    seen.add(key)
                    bumps += 1
                    reducers = sorted(n for n in callee_names(facts, val) if n in ("min", "clamp", "saturating_sub", "checked_sub", "wrapping_sub"))
                    has_sub = "'sub'" in vt or "'sub_ov'" in vt or "'div'" in vt or "'shr'" in vt
                    fld = show(e[1]).split(".")[-1]
                    if reducers or has_sub:
                        ck.bad(R, "scratch|%s|%s" % (v or f.short, fld), "WASM generator: the scratch space reserved at %s for %s is derived from word_size through a reducing operation (%s): a multi-word value gets a slot smaller than the words moved, so neighbouring slots overlap" % (fld, v or f.short, ", ".join(reducers) or "sub/div"), f.where())
                    else:
                        ck.ok(R, "scratch|%s|%s" % (v or f.short, fld), {"arm": v, "field": fld, "increment": show(val)[:100]})
    ck.floor(R, "wasm_size_derived_reservations", bumps, 2)


def rule_order(ck, facts):
    R = "C05.order"
    ck.rule(R, "in every state-layout concatenation `[..].concat()` of the MIR generator the parts are listed in the order in which they take effect at run time: a part returned by a call is placed by the position of that call; a freshly built one-cell list is placed by the position of the instruction that accesses the cell (GetState/Mem/Delay)")
    lang = facts.crate(roles.LANG)
    ACCESS = {"Feed": "GetState", "Mem": "Mem", "Delay": "Delay"}
    cells = 0
    concats = 0
    for f in lang.fns:
        if "::compiler::mirgen" not in f.path or roles.is_derived(f) or f.kind not in ("assoc", "fn", "closure"):
            continue
        has_concat = any((callee(t) or "").endswith("::concat") for _, t in f.calls())
        cell_sites = [(b, s) for b, s in f.all_stmts() if s[KIND] == "a" and s[5][0] == "agg" and s[5][1][0] == "adt" and s[5][1][1] == SKEL and s[5][1][3] in ACCESS]
        cells += len(cell_sites)
        if not has_concat:
            for b, s in cell_sites:
                ck.ok(R, "cell-alone|%s|%s" % (f.short, s[5][1][3]), {"fn": f.short, "note": "the cell list is returned alone; its caller concatenates"})
            continue
        cov = cover.coverage(facts, f, roles.EXPR)
        starts = [(None, 0, None)]
        if cov and len(cov.primary_handled()) > 5:
            starts = [(v, cov.arm_target(v), cov.primary.place) for v in sorted(cov.primary_handled())]
        for arm, start, pay in starts:
            sx = SymEx(f, payload_place=pay, max_paths=300, max_steps=12000, facts=facts)
            try:
                paths = sx.run(start)
            except PathLimit:
                paths = sx.paths
            verdicts = {}
            for p in paths:
                if p.end != "return":
                    continue
                ev = p.events
                acc = [i for i, e in enumerate(ev) if e[0] == "call" and e[1].endswith("::push_inst") and len(e[2]) > 1 and e[2][1][0] == "agg" and e[2][1][1].rsplit("::", 1)[-1] in ACCESS.values() and e[2][1][1].startswith(roles.MIR_INSTR)]
                callidx = {}
                for i, e in enumerate(ev):
                    if e[0] == "call" and e[1].startswith("mimium_lang::compiler::mirgen"):
                        callidx.setdefault(repr(("call", e[1], e[2])), i)
                for i, e in enumerate(ev):
                    if not (e[0] == "call" and e[1].endswith("::concat")):
                        continue
                    arr = e[2][0]
                    while arr[0] in ("ref", "deref", "cast"):
                        arr = arr[1] if arr[0] != "cast" else arr[2]
                    if not (arr[0] == "agg" and arr[1] == "array"):
                        continue
                    if "StateTreeSkeleton" not in f.local_ty(e[3][6][0]) and "StateTreeSkeleton" not in repr(e[3][4]):
                        continue
                    times = []
                    for part in arr[2]:
                        t = repr(part)
                        hit = [idx for key, idx in callidx.items() if key in t]
                        if hit:
                            times.append(("call", max(hit)))
                        elif len(acc) == 1 and ("into_vec" in t or "from_elem" in t or "box_assume_init" in t):
                            times.append(("cell", acc[0]))
                        else:
                            times.append(("?", None))
                    known = [x for x in times if x[1] is not None]
                    if len(known) < 2:
                        continue
                    kinds = "+".join(x[0] for x in times)
                    ok = all(known[k][1] < known[k + 1][1] for k in range(len(known) - 1))
                    verdicts.setdefault(kinds, []).append(ok)
            for kinds, oks in sorted(verdicts.items()):
                concats += 1
                key = "concat|%s|%s|%s" % (f.short, arm or "-", kinds)
                if all(oks):
                    ck.ok(R, key, {"fn": f.short, "arm": arm, "parts": kinds})
                else:
                    what = "a state cell is accessed before the sub-expressions are evaluated but is listed after them (or vice versa)" if "cell" in kinds else "sub-expression layouts are listed in an order different from their evaluation order"
                    ck.bad(R, key, "%s%s: %s in the published layout: the offsets of the layout do not describe the run-time accesses" % (f.short, (" (arm %s)" % arm) if arm else "", what), f.where())
    ck.floor(R, "state_cell_construction_sites", cells, 3)
    ck.floor(R, "layout_concatenations_checked", concats, 6)


def rule_cell_operand(ck, facts):
    R = "C05.cell-operand"
    ck.rule(R, "where the MIR generator creates a Delay cell, the length it publishes in the skeleton cell and the length operand of the Delay instruction it emits are the same expression (the runtimes size the ring from the instruction, the layout from the cell)")
    lang = facts.crate(roles.LANG)
    n = 0
    for f in lang.fns:
        if "::compiler::mirgen" not in f.path or roles.is_derived(f) or f.kind != "assoc":
            continue
        if not any(s[KIND] == "a" and s[5][0] == "agg" and s[5][1][0] == "adt" and s[5][1][1] == SKEL and s[5][1][3] == "Delay" for _, s in f.all_stmts()):
            continue
        sx = SymEx(f, max_paths=200, max_steps=8000, facts=facts)
        try:
            paths = sx.run(0)
        except PathLimit:
            paths = sx.paths
        verdict = None
        for p in paths:
            if p.end != "return":
                continue
            cell = None
            instr = None
            for e in p.events:
                if e[0] == "call":
                    for a in e[2]:
                        x = a
                        while x[0] in ("ref", "deref"):
                            x = x[1]
                        if x[0] == "agg" and x[1].endswith("StateTreeSkeleton::Delay"):
                            cell = x[2][0]
                        if x[0] == "agg" and x[1] == roles.MIR_INSTR + "::Delay":
                            instr = x[2][0]
            # the cell may be bound to a local first
            for l, v in p.env.items():
                if v[0] == "agg" and v[1].endswith("StateTreeSkeleton::Delay"):
                    cell = v[2][0]
                if v[0] == "agg" and v[1] == roles.MIR_INSTR + "::Delay":
                    instr = v[2][0]
            if cell is not None and instr is not None:
                verdict = (cell == instr, show(cell)[:80], show(instr)[:80])
        n += 1
        key = "delay-len|%s" % f.short.split("::")[-1]
        if verdict is None:
            ck.bad(R, "unanalysable|%s" % f.short.split("::")[-1], "could not relate the Delay cell and the Delay instruction built in %s" % f.short, f.where())
        elif verdict[0]:
            ck.ok(R, key, {"fn": f.short, "len": verdict[1]})
        else:
            ck.bad(R, key, "%s publishes a Delay cell of length %s but emits a Delay instruction with length %s: the ring buffer the runtimes allocate is not the cell the layout describes (its last words overlap the next cell)" % (f.short, verdict[1], verdict[2]), f.where())
    ck.floor(R, "delay_cell_sites", n, 1)


def _split_top(t):
    out, depth, cur = [], 0, ""
    for ch in t:
        if ch in "<([":
            depth += 1
        elif ch in ">)]":
            depth -= 1
        if ch == "," and depth == 0:
            out.append(cur.strip())
            cur = ""
        else:
            cur += ch
    if cur.strip():
        out.append(cur.strip())
    return out


def states_field_index(ret_ty):
    """index of the Vec<StateTreeSkeleton> component in a (possibly Option-wrapped) tuple return type"""
    t = ret_ty.strip()
    if t.startswith("std::option::Option<") and t.endswith(">"):
        t = t[len("std::option::Option<"):-1].strip()
    if not (t.startswith("(") and t.endswith(")")):
        return None
    parts = _split_top(t[1:-1])
    for i, p in enumerate(parts):
        if p.startswith("std::vec::Vec<") and "StateTreeSkeleton" in p and not p.startswith("std::vec::Vec<("):
            return i
    return None


def _uses_states(e, call_repr, j, depth=0):
    """does expression e contain field j of (an unwrapping of) the given call result, or the whole result?"""
    if not isinstance(e, tuple) or depth > 40:
        return False
    if e and e[0] == "call" and repr(("call", e[1], e[2])) == call_repr:
        return True  # the whole result flows on
    if e and e[0] == "fld":
        b = e[1]
        for _ in range(4):
            if isinstance(b, tuple) and b and b[0] in ("ref", "deref"):
                b = b[1]
            elif isinstance(b, tuple) and b and b[0] == "fld" and b[2] == 0 and isinstance(b[1], tuple) and b[1] and b[1][0] == "down":
                b = b[1][1]
            else:
                break
        if isinstance(b, tuple) and b and b[0] == "call" and repr(("call", b[1], b[2])) == call_repr:
            return e[2] == j  # a projection of the result: only the states component counts
    return any(_uses_states(x, call_repr, j, depth + 1) for x in e if isinstance(x, tuple))


def _rv_places(rv):
    """(place, mode) for every place read by an rvalue"""
    k = rv[0]
    ops = []
    if k == "use":
        ops = [rv[1]]
    elif k == "ref":
        yield rv[1], ("refmut" if rv[2] else "ref")
    elif k == "raw":
        yield rv[1], "raw"
    elif k == "disc":
        yield rv[1], "disc"
    elif k == "agg":
        ops = rv[2]
    elif k == "bin":
        ops = [rv[2], rv[3]]
    elif k in ("un", "cast"):
        ops = [rv[2]]
    elif k == "repeat":
        ops = [rv[1]]
    for op in ops:
        if op[0] in ("cp", "mv"):
            yield op[1], op[0]


def _carries(ty):
    return "StateTreeSkeleton" in ty


def states_result(f):
    """does f return (a tuple / Option of a tuple containing) a state-skeleton list?"""
    t = f.local_ty(0)
    return states_field_index(t) is not None


def dropped_states_sites(f, is_eval):
    """Must-pass-through on the CFG of f.  For every call site whose callee satisfies is_eval: the locals that may hold
    (part of) the returned state list are computed by forward propagation (only locals whose type can carry a
    skeleton); a block `uses` the list when it moves it into the return place, stores it behind a pointer, or passes it
    (not by shared reference) to a call whose result cannot carry it.  The edges taken when the (Option / ControlFlow)
    result is None / Break are removed.  A return reachable from the call without passing a use = dropped list."""
    out = []
    n_sites = 0
    for b, t in f.calls():
        c = callee(t) or ""
        if not is_eval(c):
            continue
        if t[7] is None or t[6] is None:
            continue
        n_sites += 1
        d = t[6][0]
        if d == 0:
            continue  # tail call: the result is the returned value
        T = {d}
        changed = True
        while changed:
            changed = False
            for bb, st in f.all_stmts():
                if st[KIND] != "a":
                    continue
                dst = st[4]
                if dst[0] in T or dst[0] == 0 or (dst[1] and dst[1][0] == "*"):
                    continue
                if not _carries(f.local_ty(dst[0])):
                    continue
                if any(pl[0] in T for pl, _ in _rv_places(st[5])):
                    T.add(dst[0])
                    changed = True
            for bb, tt in f.calls():
                if tt[6] is None or tt[6][0] in T or tt[6][0] == 0 or not _carries(f.local_ty(tt[6][0])):
                    continue
                if any(a[0] in ("cp", "mv") and a[1][0] in T for a in tt[5]):
                    T.add(tt[6][0])
                    changed = True
        use = set()
        cut = set()
        for bb, st in f.all_stmts():
            if st[KIND] != "a":
                continue
            dst = st[4]
            reads = [(pl, m) for pl, m in _rv_places(st[5]) if pl[0] in T]
            if not reads:
                continue
            if dst[0] == 0 or (dst[1] and dst[1][0] == "*" and dst[0] not in T):
                use.add(bb)
            if st[5][0] == "disc":
                ty = st[5][2]
                none_val = 0 if ty.startswith("std::option::Option<") else 1 if ty.startswith("std::ops::ControlFlow<") else None
                tt = f.term(bb)
                if none_val is not None and tt[KIND] == "switch" and tt[4][0] in ("cp", "mv") and tt[4][1][0] == dst[0]:
                    listed = {int(v): tb for v, tb in tt[6]}
                    if none_val in listed:
                        cut.add((bb, listed[none_val]))
                    elif len(listed) == 1:
                        cut.add((bb, tt[7]))
        for bb, tt in f.calls():
            targs = [a for a in tt[5] if a[0] in ("cp", "mv") and a[1][0] in T]
            if not targs:
                continue
            nm = (callee(tt) or "").split("::")[-1]
            if tt[6] is not None and tt[6][0] == 0:
                use.add(bb)
                continue
            if tt[6] is not None and _carries(f.local_ty(tt[6][0])):
                continue  # propagated
            if nm in ("drop", "drop_in_place"):
                continue
            for a in targs:
                lt = f.local_ty(a[1][0])
                if a[1][1] or not (lt.startswith("&") and not lt.startswith("&mut")):
                    use.add(bb)
        # reachability to a return avoiding use blocks
        seen = set()
        todo = [t[7]]
        hit = None
        while todo:
            x = todo.pop()
            if x in seen or f.is_cleanup(x):
                continue
            seen.add(x)
            if x in use:
                continue
            tx = f.term(x)
            if tx[KIND] == "return":
                hit = x
                break
            for y in f.succs(x):
                if (x, y) not in cut:
                    todo.append(y)
        if hit is not None:
            out.append((b, t, c))
    return n_sites, out


def rule_no_dropped_states(ck, facts):
    R = "C05.states-flow"
    ck.rule(R, "in every MIR-generator function that returns a state-skeleton list: from each call that returns such a list, every path to a return passes a use of that list (moved into the returned value, stored, or handed to another call), except the paths on which the call's Option result is None: a dropped list means cells that exist at run time are missing from the published layout")
    lang = facts.crate(roles.LANG)
    producers = {f.path for f in lang.fns if "::compiler::mirgen::" in f.path and f.kind in ("assoc", "fn", "closure") and states_result(f)}
    ck.floor(R, "state_list_producers", len(producers), 10)
    n = 0
    for f in lang.fns:
        if f.path not in producers:
            continue
        cov = cover.coverage(facts, f, roles.EXPR)
        k, bad = dropped_states_sites(f, lambda c: c in producers)
        n += k
        groups = {}
        for b, t, c in bad:
            arm = "-"
            if cov and len(cov.primary_handled()) > 5:
                arm = "/".join(sorted(v for v in cov.primary_handled() if cov.arm_target(v) is not None and b in reachable(f, cov.arm_target(v), stop=[cov.primary.block]))) or "-"
            groups.setdefault((arm, c.split("::")[-1]), []).append(t)
        for (arm, nm), ts in sorted(groups.items()):
            ck.bad(R, "dropped|%s|%s|%s" % (f.short.split("::")[-1], arm, nm), "%s%s: the state list returned by %s (the cells of the evaluated sub-expressions) can reach a return without being used: those cells exist at run time but are missing from the published layout" % (f.short, (" (arm %s)" % arm) if arm != "-" else "", nm), f.where(ts[0]))
        if k and not bad:
            ck.ok(R, "flow|%s" % f.short.split("::")[-1], {"function": f.short, "call_sites": k})
    ck.floor(R, "evaluation_results_tracked", n, 40)


_ACC = {"sum": "ContextData::push_sum", "pend": "ContextData::next_state_offset"}


def _acc_init(facts):
    """the generator's two bookkeeping fields by role: the struct of the MIR generator that has exactly one `u64` and one
    `Option<u64>` field — the running sum of pushed offsets and the pending offset (names are free to change)"""
    for pth, a in facts.crate(roles.LANG).adts.items():
        if "::compiler::mirgen::" not in pth or len(a["variants"]) != 1:
            continue
        flds = a["variants"][0]["f"]
        u = [n for n, ty in flds if ty == "u64"]
        o = [n for n, ty in flds if ty.replace("std::option::", "") == "Option<u64>"]
        if len(u) == 1 and len(o) == 1:
            st = pth.split("::")[-1]
            _ACC["sum"], _ACC["pend"] = "%s::%s" % (st, u[0]), "%s::%s" % (st, o[0])
            return


def _acc_assignments(f):
    """(stmt, field, class) for every assignment to ContextData::push_sum / next_state_offset in f.
    class: const | none | some | accumulate | restore | computed"""
    out = []
    di = None
    for b, st in f.all_stmts():
        if st[KIND] != "a" or not st[4][1]:
            continue
        fl = place_fields(st[4])
        if not (fl and fl[-1] and (fl[-1].endswith(_ACC["sum"]) or fl[-1].endswith(_ACC["pend"]))):
            continue
        actual = _ACC["sum"] if fl[-1].endswith(_ACC["sum"]) else _ACC["pend"]
        field = "push_sum" if actual == _ACC["sum"] else "next_state_offset"  # canonical role labels
        di = di or DefIndex(f)
        rv = st[5]
        cls = "computed"
        if rv[0] == "use":
            op = rv[1]
            if op[0] == "c":
                cls = "const"
            else:
                pl = op[1]
                if pl[1] and pl[1][-1][0] == "f" and not [x for x in place_fields(pl) if x and "::" in x]:
                    # (checked add).0
                    r = di.resolve(["cp", [pl[0], []]])
                    if r[0] == "rv" and r[1][5][0] == "bin" and r[1][5][1] in ("add", "add_ov"):
                        ops = r[1][5][2:4]
                        if any(o[0] in ("cp", "mv") and (place_fields(o[1]) or [None])[-1] and place_fields(o[1])[-1].endswith(actual) for o in ops):
                            cls = "accumulate"
                else:
                    r = di.resolve(op)
                    if r[0] == "rv" and r[1][5][0] == "agg" and r[1][5][1][0] == "adt" and r[1][5][1][1].endswith("Option"):
                        cls = "none" if r[1][5][1][3] == "None" else "some"
                    elif r[0] == "place" and (place_fields(r[1]) or [None])[-1] and place_fields(r[1])[-1].endswith(actual):
                        cls = "restore"
                    elif r[0] == "rv" and r[1][5][0] == "use" and r[1][5][1][0] in ("cp", "mv") and (place_fields(r[1][5][1][1]) or [None])[-1] and place_fields(r[1][5][1][1])[-1].endswith(actual):
                        cls = "restore"
                    elif r[0] == "const":
                        cls = "const"
        out.append((st, field, cls))
    return out


def rule_branch_accounting(ck, facts):
    _acc_init(facts)
    R = "C05.branch-accounting"
    ck.rule(R, "the MIR generator counts state-offset pushes in one per-function sum (popped once at the function end), which equals the run-time displacement only if every alternative of a branch leaves the position where it found it: (isolated) every function that builds a JmpIf / Switch and evaluates sub-expressions restores ContextData::push_sum around the alternatives (itself or through a helper that does); (no-reset) push_sum / next_state_offset are never overwritten with a constant (that forgets the pushes and the pending offset of the code before the branch)")
    lang = facts.crate(roles.LANG)
    mg = [f for f in lang.fns if "::compiler::mirgen::" in f.path and f.kind != "promoted" and not roles.is_derived(f)]
    producers = {f.path for f in mg if f.kind in ("assoc", "fn", "closure") and states_result(f)}
    acc = {f.path: _acc_assignments(f) for f in mg}
    restoring = {p for p, lst in acc.items() if any(fld == "push_sum" and cls == "restore" for _, fld, cls in lst)}
    # (no-reset)
    n_assign = 0
    for f in mg:
        for st, fld, cls in acc[f.path]:
            n_assign += 1
            root = f.root.split("::", 1)[1].split("::")[-1]
            if (fld == "push_sum" and cls == "const") or (fld == "next_state_offset" and cls in ("none", "const")):
                ck.bad(R, "reset|%s|%s" % (root, fld), "%s overwrites ContextData::%s with a constant: the offsets pushed (and the offset still pending) for the cells evaluated before this point are forgotten, so the cells evaluated next are placed on top of them and the function-end pop no longer matches the pushes" % (f.short, fld), f.where(st))
            else:
                ck.ok(R, "assign|%s|%s|%s" % (root, fld, cls))
    ck.floor(R, "accounting_assignments", n_assign, 5)
    # (isolated)
    sites = []
    for f in mg:
        for b, st in f.all_stmts():
            if st[KIND] == "a" and st[5][0] == "agg" and st[5][1][0] == "adt" and st[5][1][1] == roles.MIR_INSTR and st[5][1][3] in ("JmpIf", "Switch", "JmpTable"):
                sites.append((f, b, st))
    ck.floor(R, "branching_instruction_sites", len(sites), 4)
    byroot = {}
    for f in mg:
        byroot.setdefault(f.root, []).append(f)
    for f, b, st in sites:
        cov = cover.coverage(facts, f, roles.EXPR)
        arm = None
        if cov and len(cov.primary_handled()) > 5:
            vs = [v for v in cov.primary_handled() if cov.arm_target(v) is not None and b in reachable(f, cov.arm_target(v), stop=[cov.primary.block])]
            arm = "/".join(sorted(vs)) or None
            region = set()
            for v in vs:
                region |= set(reachable(f, cov.arm_target(v), stop=[cov.primary.block]))
            members = [(f, region)]
            # closures created inside the arm
            for bb in region:
                for s2 in f.stmts(bb):
                    if s2[KIND] == "a" and s2[5][0] == "agg" and s2[5][1][0] == "closure":
                        g = facts.fn(s2[5][1][1])
                        if g is not None:
                            members.append((g, None))
        else:
            members = [(g, None) for g in byroot.get(f.root, [f])]
        evals = 0
        isolated = False
        for g, reg in members:
            for bb, t in g.calls():
                if reg is not None and bb not in reg:
                    continue
                c = callee(t) or ""
                if c in producers:
                    evals += 1
                if c in restoring and c not in producers:
                    isolated = True
            for s2, fld, cls in acc.get(g.path, []):
                if fld == "push_sum" and cls == "restore":
                    # inside the region?
                    if reg is None or any(s2 in g.stmts(bb) for bb in reg):
                        isolated = True
        key = "isolated|%s|%s" % (f.short.split("::")[-1], arm or st[5][1][3])
        if evals == 0:
            ck.ok(R, key, {"evaluations": 0})
        elif isolated:
            ck.ok(R, key, {"evaluations": evals, "push_sum": "restored per alternative"})
        else:
            ck.bad(R, key, "%s%s builds a %s and evaluates %d sub-expression(s) for its alternatives without restoring ContextData::push_sum between them: the offsets pushed by one alternative are counted as if every run executed them, so a later alternative starts from the wrong position and the single pop at the function end does not match the pushes of the path taken (cursor not back at the origin, cells outside the published layout)" % (f.short, (" (arm %s)" % arm) if arm else "", st[5][1][3], evals), f.where(st))


def rule_alternative_advance(ck, facts):
    _acc_init(facts)
    """the alternatives of a branch lie side by side in the layout: each starts where the previous one ended"""
    R = "C05.branch-accounting"
    lang = facts.crate(roles.LANG)
    mg = [f for f in lang.fns if "::compiler::mirgen::" in f.path and f.kind != "promoted" and not roles.is_derived(f)]
    acc = {f.path: _acc_assignments(f) for f in mg}
    # the helper that evaluates one alternative: restores push_sum, sets next_state_offset from its argument and runs
    # a closure it is given (found by role)
    helpers = set()
    for f in mg:
        if f.kind not in ("assoc", "fn"):
            continue
        kinds = {(fld, cls) for _, fld, cls in acc[f.path]}
        calls_param = any(callee(t) is None or (callee(t) or "").endswith("call_once") for _, t in f.calls())
        if ("push_sum", "restore") in kinds and any(fld == "next_state_offset" for fld, _ in kinds) and calls_param:
            helpers.add(f.path)
    ck.require(R, len(helpers) >= 1, "anchor|alternative-helper", "the helper that evaluates one alternative of a branch (restores push_sum around a closure and starts it at a given offset) was not found")
    sizers = {f.path for f in mg if f.kind in ("assoc", "fn") and f.d["argc"] == 1 and any((callee(t) or "").split("::")[-1] == "total_size" for g in facts.family(roles.LANG, f.path) for _, t in g.calls()) and not states_result(f)}
    n = 0
    for f in mg:
        sites = [(b, t) for b, t in f.calls() if (callee(t) or "") in helpers]
        if not sites:
            continue
        call_blocks = {b for b, _ in sites}
        publish = set()
        for st, fld, cls in acc[f.path]:
            if fld == "next_state_offset":
                publish |= {b for b, s2 in f.all_stmts() if s2 is st}
        for b, t in sites:
            n += 1
            # locals derived from the call's result
            tainted = {t[6][0]}
            changed = True
            while changed:
                changed = False
                for bb, s2 in f.all_stmts():
                    if s2[KIND] == "a" and s2[4][0] not in tainted and any(pl[0] in tainted for pl, _m in _rv_places(s2[5])):
                        tainted.add(s2[4][0])
                        changed = True
                for bb, t2 in f.calls():
                    if (callee(t2) or "").split("::")[-1] in ("deref", "as_slice", "as_ref", "borrow") and any(a[0] in ("cp", "mv") and a[1][0] in tainted for a in t2[5]) and t2[6][0] not in tainted:
                        tainted.add(t2[6][0])
                        changed = True
            measured = {bb for bb, t2 in f.calls() if (callee(t2) or "") in sizers and any(a[0] in ("cp", "mv") and a[1][0] in tainted for a in t2[5])}
            nxt = t[7]
            key = "advance|%s" % (f.short.split("::", 1)[-1] if f.kind == "closure" else f.short.split("::")[-1])
            if nxt is None:
                continue
            seen = reachable(f, nxt, avoid=measured)
            hits = [x for x in seen if x in call_blocks or x in publish]
            # leaving a closure body without measuring hands the same start to the next alternative
            if f.kind == "closure" and any(f.term(x)[KIND] == "return" for x in seen):
                hits.append("return")
            if hits:
                ck.bad(R, key, "%s: after evaluating one alternative (the call of %s at line %s) there is a way to the next alternative / to the offset published for the code after the branch that does not add the size of the alternative's cells (no call of %s on its state list): the next alternative or the next stateful call is placed on top of these cells, so the published layout and the run-time offsets disagree" % (f.short, (callee(t) or "").split("::")[-1], t[0], "/".join(sorted(x.split("::")[-1] for x in sizers)) or "the size function"), f.where(t))
            else:
                ck.ok(R, key, {"fn": f.short})
    ck.floor(R, "alternative_evaluations", n, 8)


def rule_accounting(ck, facts):
    _acc_init(facts)
    R = "C05.accounting"
    ck.rule(R, "every construction of Instruction::PushStateOffset(n) in the MIR generator happens on a path that also adds n to ContextData.push_sum (the amount popped at function exit); PopStateOffset is emitted with push_sum (function end) or with the difference to a saved push_sum that is then written back (end of a branch alternative)")
    lang = facts.crate(roles.LANG)
    n = 0
    for f in lang.fns:
        if "::compiler::mirgen" not in f.path or roles.is_derived(f) or f.kind == "promoted":
            continue
        sites = [(b, s) for b, s in f.all_stmts() if s[KIND] == "a" and s[5][0] == "agg" and s[5][1][0] == "adt" and s[5][1][1] == roles.MIR_INSTR and s[5][1][3] == "PushStateOffset"]
        if not sites:
            continue
        di = DefIndex(f)
        dom = dominators(f)
        groups = {}
        for b, s in sites:
            n += 1
            # is there a write to push_sum in a block that dominates or is dominated by b (same straight-line region)?
            ok = False
            for bb, st in f.all_stmts():
                if st[KIND] == "a" and st[4][1]:
                    fl = place_fields(st[4])
                    if fl and fl[-1] and fl[-1].endswith(_ACC["sum"]) and (bb in dom[b] or b in dom.get(bb, ())):
                        ok = True
            root = f.root.split("::", 1)[1]
            groups.setdefault((root, ok), []).append((f, s))
        for (root, ok), lst in sorted(groups.items()):
            if ok:
                ck.ok(R, "push|%s" % root, {"fn": root, "sites": len(lst)})
            else:
                ck.bad(R, "push|%s|x%d" % (root, len(lst)), "%s emits PushStateOffset at %d site(s) without adding the amount to push_sum: the cursor advance is not undone by the PopStateOffset(push_sum) at function exit (state cursor drifts / underflows)" % (root, len(lst)), ", ".join(ff.where(ss) for ff, ss in lst))
    ck.floor(R, "push_state_offset_sites", n, 1)
    # the pop uses push_sum
    pops = []
    for f in lang.fns:
        if "::compiler::mirgen" not in f.path or f.kind == "promoted":
            continue
        for b, s in f.all_stmts():
            if s[KIND] == "a" and s[5][0] == "agg" and s[5][1][0] == "adt" and s[5][1][1] == roles.MIR_INSTR and s[5][1][3] == "PopStateOffset":
                di = DefIndex(f)
                r = di.resolve(s[5][2][0])
                src = repr(r)
                ok = _ACC["sum"].split("::")[-1] in src
                if not ok:
                    # branch-local pop: (push_sum - saved) where saved was read from push_sum and is written back
                    rr = r
                    if rr[0] == "place" and rr[1][1] and rr[1][1][-1][0] == "f":
                        rr = di.resolve(["cp", [rr[1][0], []]])
                    if rr[0] == "rv" and rr[1][5][0] == "bin" and rr[1][5][1] in ("sub", "sub_ov"):
                        a, b2 = rr[1][5][2], rr[1][5][3]
                        ra, rb = repr(di.resolve(a)), repr(di.resolve(b2))
                        restores = [1 for _, fld, cls in _acc_assignments(f) if fld == "push_sum" and cls == "restore"]
                        ok = _ACC["sum"].split("::")[-1] in ra and _ACC["sum"].split("::")[-1] in rb and bool(restores)
                pops.append((f, s, ok))
    ck.floor(R, "pop_state_offset_sites", len(pops), 2)
    for f, s, ok in pops:
        if ok:
            ck.ok(R, "pop|%s" % f.short)
        else:
            ck.bad(R, "pop|%s" % f.short, "%s emits PopStateOffset with an amount that is neither the accumulated push_sum nor its increase since a saved value that is restored afterwards" % f.short, f.where(s))


def _cursor_primitive(f, st):
    """a store to the cursor whose value is a constant, or is computed from the cursor itself and something the
    function was given (`pos ± n`, saturating or not)"""
    from ..rules.chainwalk import taint

    rv = st[5]
    if rv[0] == "use" and rv[1][0] == "c":
        return True
    defs = {}
    for _, s2 in f.all_stmts():
        if s2[KIND] == "a" and not s2[4][1]:
            defs.setdefault(s2[4][0], []).append(("s", s2))
    for _, t2 in f.calls():
        if t2[6] is not None and not t2[6][1]:
            defs.setdefault(t2[6][0], []).append(("c", t2))
    seen, work = set(), []
    for pl, _m in _rv_places(rv):
        work.append(pl[0])
    reads_pos, consts_only = False, True
    while work:
        l = work.pop()
        if l in seen:
            continue
        seen.add(l)
        for kind, d in defs.get(l, []):
            if kind == "s":
                for pl, _m in _rv_places(d[5]):
                    fl = place_fields(pl)
                    if fl and fl[-1] and fl[-1].endswith("StateStorage::pos"):
                        reads_pos = True
                    work.append(pl[0])
            else:
                for a in d[5]:
                    if a[0] in ("cp", "mv"):
                        fl = place_fields(a[1])
                        if fl and fl[-1] and fl[-1].endswith("StateStorage::pos"):
                            reads_pos = True
                        work.append(a[1][0])
    args = set(range(1, f.d.get("argc", 0) + 1))
    given = bool(seen & taint(f, args))
    if not seen or all(not defs.get(l) and l not in args for l in seen):
        return False
    return reads_pos and given


def rule_cursor(ck, facts):
    R = "C05.cursor"
    ck.rule(R, "the run-time state cursor (StateStorage.pos, VM and WASM host) is written only by push/pop functions and the explicit reset; the VM resizes the global state storage from the entry function's skeleton before executing it")
    lang = facts.crate(roles.LANG)
    # the primitives are recognised by what they do, not by their names: they move the cursor by an amount they are
    # given (`pos = pos ± argument`) or put it back to a constant origin
    n = 0
    for f in lang.fns:
        if roles.is_derived(f) or f.kind == "promoted":
            continue
        for b, s in f.all_stmts():
            if s[KIND] == "a" and s[4][1]:
                fl = place_fields(s[4])
                if fl and fl[-1] and fl[-1].endswith("StateStorage::pos") and isinstance(s[4][1][-1], list) and s[4][1][-1][2] == fl[-1]:
                    n += 1
                    root = f.root.split("::", 1)[1]
                    if _cursor_primitive(f, s):
                        ck.ok(R, "writer|%s" % root)
                    else:
                        ck.bad(R, "writer|%s" % root, "%s writes the state cursor directly (only the push/pop primitives and the explicit reset may)" % f.short, f.where(s))
    ck.floor(R, "state_cursor_writes", n, 4)
    # every entry that runs a function on the *global* state storage (Machine::execute with no closure) sizes that
    # storage from the entered function's skeleton first: the state accessors are unchecked pointer arithmetic
    from ..cfg import DefIndex as _DI
    entries = 0
    for f in lang.fns:
        if f.kind == "promoted" or "::test" in f.path or "::runtime::vm" not in f.path:
            continue
        if f.root.endswith("runtime::vm::Machine::execute"):
            continue  # the interpreter's own recursion (calls between user functions share the entry's storage)
        di = None
        for b, t in f.calls():
            if not (callee(t) or "").endswith("vm::Machine::execute") or len(t[5]) < 3:
                continue
            di = di or _DI(f)
            r = di.resolve(t[5][2])
            is_none = r[0] == "rv" and r[1][5][0] == "agg" and r[1][5][1][0] == "adt" and r[1][5][1][1].endswith("::Option") and r[1][5][1][3] == "None"
            if not is_none:
                continue
            entries += 1
            dom = dominators(f)
            rs = [b2 for b2, t2 in f.calls() if (callee(t2) or "").endswith("::resize") and ("StateStorage" in (callee(t2) or "") or "Vec" in (callee(t2) or ""))]
            sized = any((callee(t2) or "").endswith("::total_size") for g in facts.family(roles.LANG, f.root) for _, t2 in g.calls())
            key = "resize-before-execute|%s" % f.short.split("::")[-1]
            if any(r2 in dom[b] for r2 in rs) and sized:
                ck.ok(R, key, {"fn": f.short})
            else:
                ck.bad(R, key, "%s runs a function on the global state storage without sizing that storage from the function's skeleton (total_size) first: a stateful call in that function writes through an unchecked pointer into an empty / too short buffer" % f.short, f.where(t))
    ck.floor(R, "vm_entries_on_global_state", entries, 2)

    # the per-closure cursor reset belongs to the closure that is leaving: where a host function resets a cursor found
    # through the top of the closure-state stack and pops that stack, the top is read before the pop
    from ..cfg import DefIndex
    m = 0
    for f in lang.fns:
        if "runtime::wasm" not in f.path or f.kind == "promoted" or "::test" in f.path:
            continue
        di = None
        pops, lasts = [], []
        for b, t in f.calls():
            n2 = (callee(t) or "").split("::")[-1]
            if n2 not in ("pop", "last", "last_mut") or not t[5]:
                continue
            di = di or DefIndex(f)
            r = di.resolve(t[5][0])
            fld = None
            cur = t[5][0]
            for _ in range(4):
                r = di.resolve(cur)
                if r[0] == "rv" and r[1][5][0] == "ref":
                    fl = [x for x in place_fields(r[1][5][1]) if x and "::" in x]
                    if fl:
                        fld = fl[-1]
                        break
                    cur = ["cp", [r[1][5][1][0], []]]
                    continue
                if r[0] == "call" and r[1][5]:
                    cur = r[1][5][0]
                    continue
                break
            if fld and fld.endswith("RuntimeState::state_stack"):
                (pops if n2 == "pop" else lasts).append(b)
        resets = [b for b, st in f.all_stmts() if st[KIND] == "a" and st[4][1] and (place_fields(st[4]) or [None])[-1] and place_fields(st[4])[-1].endswith("StateStorage::pos") and st[5][0] == "use" and st[5][1][0] == "c"]
        if not (pops and resets):
            continue
        m += 1
        dom = dominators(f)
        ok2 = bool(lasts) and all(any(l in dom.get(pb, ()) for l in lasts) for pb in pops)
        key2 = "outgoing-reset|%s" % f.short.split("::")[-1]
        if ok2:
            ck.ok(R, key2)
        else:
            ck.bad(R, key2, "%s pops the closure-state stack before it looks up the entry whose cursor it resets: the reset lands on the caller's state that becomes active again, not on the closure that returns, so the caller's later cells are addressed from offset 0 (cell 3 aliases cell 2 on WASM only)" % f.short, f.where())
    ck.floor(R, "closure_cursor_resets", m, 1)


def rule_emission_order(ck, facts):
    """alternatives are emitted in the order in which their code is placed"""
    from ..cfg import dominators

    R = "C05.site-table"
    lang = facts.crate(roles.LANG)
    n = 0
    for f in lang.fns:
        if "::compiler::bytecodegen" not in f.path or f.kind == "promoted" or "::test" in f.path:
            continue
        aggs = []
        for b, blk in enumerate(f.bb):
            if blk["c"]:
                continue
            for i, st in enumerate(blk["s"]):
                if st[KIND] == "a" and st[5][0] == "agg" and st[5][1][0] == "array" and len(st[5][2]) >= 2 and all(o[0] in ("cp", "mv") and not o[1][1] and "Vec<" in f.local_ty(o[1][0]) and "Instruction" in f.local_ty(o[1][0]) for o in st[5][2]):
                    locs = []
                    for o in st[5][2]:
                        L = o[1][0]
                        for _ in range(4):  # `[a, b]` moves the vectors through temporaries
                            ds = [s2 for _, s2 in f.all_stmts() if s2[KIND] == "a" and s2[4] == [L, []]]
                            if len(ds) == 1 and ds[0][5][0] == "use" and ds[0][5][1][0] == "mv" and not ds[0][5][1][1][1]:
                                L = ds[0][5][1][1][0]
                            else:
                                break
                        locs.append(L)
                    aggs.append((b, i, locs))
        if not aggs:
            continue
        dom = dominators(f)
        for ab, ai, order in aggs:
            firsts = []
            for L in order:
                refs = []
                for b, blk in enumerate(f.bb):
                    if blk["c"] or b not in dom.get(ab, ()) and b != ab:
                        pass
                    for i, st in enumerate(blk["s"]):
                        if not blk["c"] and st[KIND] == "a" and st[5][0] == "ref" and st[5][2] and st[5][1] == [L, []]:
                            refs.append((b, i))
                # the earliest mutable borrow: the one whose block dominates the blocks of all the others
                first = None
                for (b, i) in refs:
                    if all((b in dom.get(b2, ()) and (b != b2 or i <= i2)) for (b2, i2) in refs):
                        first = (b, i)
                firsts.append(first)
            if any(x is None for x in firsts):
                continue
            n += 1
            owner = f.root.split("::")[-1]
            key = "emission-order|%s" % owner
            ok = True
            for (b1, i1), (b2, i2) in zip(firsts, firsts[1:]):
                if not (b1 in dom.get(b2, ()) and (b1 != b2 or i1 < i2)):
                    ok = False
            if ok:
                ck.ok(R, key, {"alternatives": len(order)})
            else:
                ck.bad(R, key, "%s places the code of its alternatives in one order (the array that is appended to the output) and fills them in another: whatever the emission records per instruction on the side — the ring length of each `Delay` in `delay_sizes`, which the VM assigns to the k-th Delay in code order — ends up attached to the other alternative's instruction (a delay in the then-branch runs with the length of the else-branch's delay and writes past its cell)" % f.short, f.where(f.stmts(ab)[ai]))
    ck.floor(R, "alternative_placements", n, 1)


def run(ck, facts, tier):
    rule_emission_order(ck, facts)
    from ..rules import scratchlocal as _sl

    _cov = roles.wasm_lowering(facts)
    if _cov is not None:
        _sl.run(ck, facts, "C05.scratch", roles.LANG, _cov)
    from ..rules import saverestore

    saverestore.run(ck, facts, "C05.cursor", "mimium_lang", scope="::runtime::", floor=2, why="fields of the machine that describe the running activation")
    rule_sizes(ck, facts)
    rule_order(ck, facts)
    rule_cell_operand(ck, facts)
    rule_no_dropped_states(ck, facts)
    rule_accounting(ck, facts)
    rule_branch_accounting(ck, facts)
    rule_alternative_advance(ck, facts)
    rule_cursor(ck, facts)
    prims.rule_site_table(ck, facts, "C05.site-table")
    ck.not_decided("that the cursor value at each access equals the layout's offset on a run; VM/WASM flat state-word equality; `cursor back at origin after dsp` as a run-time fact")
