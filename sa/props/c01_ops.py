"""C01.ops (E4) — operator templates of the VM dispatch arms and of the WASM lowering agree.

For every mir::Instruction variant M that the bytecode lowering maps to a VM instruction V through a
constructor passed to a helper (emit_binop1/2 shape), extract
  * the VM template: symbolic execution of V's arm in the dispatch loop, value stored by set_stack;
  * the WASM template: the wasm_encoder instruction sequence the WASM lowering emits for M, run through a
    small stack machine;
and compare them on an f64 / i64 class domain (exhaustive for templates that only compare leaves with each
other and with constants; a probe set for arithmetic).  Host math imports are followed to the f64 method the
host closure calls."""
import itertools
import math
import struct

from .. import roles
from ..cfg import DefIndex, reachable
from ..facts import KIND, callee, callee_full, const_str
from ..symex import PathLimit, SymEx, show

R = "C01.ops"
FACTS = [None]

NAN = float("nan")
INF = float("inf")
F_DOMAIN = [NAN, -INF, -2.5, -1.0, -0.3, -0.0, 0.0, 0.3, 1.0, 2.5, 5.5, INF, 1e300, 4503599627370497.0, -9.3e18, 9.3e18]
I_DOMAIN = [0, 1, -1, 2, -2, 7, -7, 63, 2**62, -(2**63), 2**63 - 1]


def f2bits(x):
    if isinstance(x, float) and math.isnan(x):
        return "nan"
    return struct.unpack("<Q", struct.pack("<d", float(x)))[0]


def wrap64(v):
    v &= (1 << 64) - 1
    return v - (1 << 64) if v >= (1 << 63) else v


def raw(v):
    """raw 64-bit word of a runtime value (NaN canonicalised: the property lets NaN match NaN)"""
    if isinstance(v, tuple):
        return v
    if isinstance(v, bool):
        return int(v)
    if isinstance(v, float):
        return f2bits(v)
    return wrap64(v) & ((1 << 64) - 1)


class Unsupported(Exception):
    pass


def fmod(a, b):
    try:
        return math.fmod(a, b)
    except ValueError:
        return NAN


def fdiv(a, b):
    if b == 0.0:
        if a == 0.0 or math.isnan(a):
            return NAN
        return math.copysign(INF, a) * math.copysign(1.0, b)
    try:
        return a / b
    except OverflowError:
        return math.copysign(INF, a) * math.copysign(1.0, b)


def fop(f, *a):
    try:
        return f(*a)
    except OverflowError:
        return INF


def sat_f2i(x):
    if math.isnan(x):
        return 0
    if x >= 9.223372036854775807e18:
        return 2**63 - 1
    if x <= -9.223372036854775808e18:
        return -(2**63)
    return int(x)


def ev(e, val):
    """evaluate a template expression under a valuation {payload index: python value}"""
    k = e[0]
    if k == "k":
        return e[1]
    if k == "src":
        return val[e[1]]
    if k == "bin":
        a, b = ev(e[2], val), ev(e[3], val)
        op = e[1]
        isf = isinstance(a, float) or isinstance(b, float)
        if op in ("eq", "ne", "lt", "le", "gt", "ge"):
            return {"eq": a == b, "ne": a != b, "lt": a < b, "le": a <= b, "gt": a > b, "ge": a >= b}[op]
        if isf:
            a, b = float(a), float(b)
            if op == "add":
                return a + b
            if op == "sub":
                return a - b
            if op == "mul":
                return fop(lambda: a * b) if not (math.isinf(a) or math.isinf(b)) else (NAN if (a == 0 or b == 0) else a * b)
            if op == "div":
                return fdiv(a, b)
            if op == "rem":
                return fmod(a, b)
        else:
            if isinstance(a, bool) and isinstance(b, bool):
                if op == "and":
                    return a and b
                if op == "or":
                    return a or b
                if op == "xor":
                    return a != b
            a, b = int(a), int(b)
            if op == "add":
                return wrap64(a + b)
            if op == "sub":
                return wrap64(a - b)
            if op == "mul":
                return wrap64(a * b)
            if op in ("div", "rem"):
                if b == 0:
                    return ("trap", "div0")
                if a == -(2**63) and b == -1:
                    return ("trap", "overflow") if op == "div" else 0
                q = abs(a) // abs(b)
                q = q if (a < 0) == (b < 0) else -q
                return q if op == "div" else a - q * b
            if op == "and":
                return a & b
            if op == "or":
                return a | b
            if op == "xor":
                return wrap64(a ^ b)
            if op == "shr":
                return a >> (b & 63)
            if op == "shl":
                return wrap64(a << (b & 63))
        raise Unsupported("bin %s" % op)
    if k == "un":
        a = ev(e[2], val)
        if e[1] == "neg":
            return -a if isinstance(a, float) else wrap64(-a)
        if e[1] == "not":
            return (not a) if isinstance(a, bool) else wrap64(~a)
        raise Unsupported("un %s" % e[1])
    if k == "cast":
        a = ev(e[2], val)
        kind = e[1]
        if kind == "FloatToInt":
            return sat_f2i(a)
        if kind == "IntToFloat":
            return float(int(a))
        if kind == "IntToInt":
            return int(a)
        if kind == "FloatToFloat":
            return a
        raise Unsupported("cast %s" % kind)
    if k == "sel":
        c = ev(e[1], val)
        return ev(e[2], val) if c else ev(e[3], val)
    if k == "ucvt":  # i32 -> f64 / i64 unsigned
        a = ev(e[1], val)
        return float(int(a)) if e[2] == "f64" else int(a)
    if k == "fn":
        # symbolic token: same function applied to the same raw arguments
        args = tuple(raw(ev(a, val)) for a in e[2])
        if any(isinstance(x, tuple) and x and x[0] == "trap" for x in args):
            return args[0]
        return ("fn", e[1], args)
    if k == "trunc_trap":
        a = ev(e[1], val)
        if math.isnan(a) or a >= 9.223372036854775807e18 or a < -9.223372036854775808e18:
            return ("trap", "invalid conversion to integer")
        return int(a)
    if k == "ftrunc":
        a = ev(e[1], val)
        return a if (math.isnan(a) or math.isinf(a)) else float(math.trunc(a)) if a != 0 else a
    raise Unsupported("expr %s" % k)


# --------------------------------------------------------------------------------------------------
# VM templates
def short_method(name):
    """'core::f64::<impl f64>::sin' -> 'f64::sin'"""
    last = name.rsplit("::", 1)[-1]
    if "<impl f64>" in name or name.startswith(("std::f64", "core::f64")):
        return "f64::" + last
    if "<impl i64>" in name:
        return "i64::" + last
    return name


def vm_normalise(e):
    """rewrite the raw symbolic expression of a VM arm into template form"""
    k = e[0]
    if k == "call":
        name, args = e[1], e[2]
        if name.endswith("Machine::get_stack") and len(args) == 2:
            return ("reg", vm_normalise(args[1]))
        if "Machine::get_as::<" in name or name.endswith("Machine::get_as"):
            inner = vm_normalise(args[0])
            ty = e[3] if len(e) > 3 else None
            if inner[0] == "reg":
                idx = inner[1]
                while idx[0] == "cast":
                    idx = idx[2]
                if idx[0] == "pay":
                    return ("src", idx[2], ty)
            return ("as", ty, inner)
        if "Machine::to_value::<" in name or name.endswith("Machine::to_value"):
            return vm_normalise(args[0])
        sm = short_method(name)
        if sm.startswith(("f64::", "i64::")):
            return ("fn", sm, tuple(vm_normalise(a) for a in args))
        if name.endswith("::partial_cmp"):
            return ("pcmp", tuple(vm_normalise(a) for a in args))
        return ("opaque", name)
    if k == "bin":
        return ("bin", e[1], vm_normalise(e[2]), vm_normalise(e[3]), e[4])
    if k == "un":
        return ("un", e[1], vm_normalise(e[2]), e[3])
    if k == "cast":
        return ("cast", e[1], vm_normalise(e[2]), e[3], e[4])
    if k in ("ref", "deref"):
        return vm_normalise(e[1])
    if k == "fld" and e[1][0] == "bin" and e[1][1].endswith("_ov") and e[2] == 0:
        # checked arithmetic of debug builds: (result, overflowed).0 ; the overflow assert is a debug-only panic
        b = e[1]
        return ("bin", b[1][:-3], vm_normalise(b[2]), vm_normalise(b[3]), b[4])
    return e


def has_opaque(e):
    if not isinstance(e, tuple):
        return False
    if e and e[0] in ("opaque", "unk", "call", "arg", "fld", "idx", "down", "disc", "as", "reg", "pcmp", "agg", "pay"):
        return True
    return any(has_opaque(x) for x in e if isinstance(x, tuple))


def vm_hook(sx, path, t, name, args):
    full = callee_full(t) or name
    if "Machine::get_as::<" in full or "Machine::to_value::<" in full:
        ty = full.split("::<", 1)[1].rstrip(">")
        return ("call", name, args, ty)
    return None


def vm_template(vd, variant):
    """list of (conds, dst_expr, value_expr) or raises Unsupported"""
    fn = vd.fn
    tb = vd.arm_target(variant)
    sx = SymEx(fn, payload_place=vd.primary.place, max_paths=64, call_hook=vm_hook, facts=FACTS[0])
    try:
        paths = sx.run(tb, stop_blocks=[vd.primary.block])
    except PathLimit as e:
        raise Unsupported("vm arm too large: %s" % e)
    out = []
    for p in paths:
        if p.end == "loop":
            raise Unsupported("vm arm contains a loop")
        if p.end == "diverge":
            continue
        stores = [ev_ for ev_ in p.events if ev_[0] == "call" and ev_[1].endswith("Machine::set_stack")]
        other = [
            ev_
            for ev_ in p.events
            if ev_[0] == "call"
            and not ev_[1].endswith(
                ("Machine::set_stack", "Machine::get_stack", "Machine::set_stacktype", "Machine::get_fnproto", "::index")
            )
            and "Machine::get_as" not in ev_[1]
            and "Machine::to_value" not in ev_[1]
            and not short_method(ev_[1]).startswith(("f64::", "i64::"))
            and not ev_[1].endswith("::partial_cmp")
        ]
        if other or len(stores) != 1:
            raise Unsupported("vm arm is not a pure register operator (%d stores, other calls: %s)" % (len(stores), sorted({o[1].split('::')[-1] for o in other})[:4]))
        conds = []
        for c, v, pos in p.conds:
            conds.append((vm_normalise(c), v, pos))
        val = vm_normalise(stores[0][2][2])
        dst = vm_normalise(stores[0][2][1])
        out.append((conds, dst, val))
    if not out:
        raise Unsupported("no returning path")
    return out


def vm_eval(templ, valuation):
    for conds, dst, val in templ:
        ok = True
        for c, v, pos in conds:
            if has_opaque(c):
                raise Unsupported("opaque condition %s" % show_t(c))
            cv = int(ev(c, valuation))
            if pos:
                if cv != v:
                    ok = False
                    break
            else:
                if cv in v:
                    ok = False
                    break
        if ok:
            if has_opaque(val):
                raise Unsupported("opaque value %s" % show_t(val))
            return ev(val, valuation)
    raise Unsupported("no path condition holds")


def show_t(e):
    if not isinstance(e, tuple):
        return repr(e)
    k = e[0]
    if k == "src":
        return "src%d" % e[1]
    if k == "fn":
        return "%s(%s)" % (e[1], ", ".join(show_t(a) for a in e[2]))
    if k == "bin":
        return "(%s %s %s)" % (show_t(e[2]), e[1], show_t(e[3]))
    if k == "un":
        return "%s(%s)" % (e[1], show_t(e[2]))
    if k == "cast":
        return "(%s as %s)" % (show_t(e[2]), e[4])
    if k == "k":
        return repr(e[1])
    if k == "sel":
        return "(%s ? %s : %s)" % (show_t(e[1]), show_t(e[2]), show_t(e[3]))
    if k == "ucvt":
        return "%s(%s)" % (e[2], show_t(e[1]))
    if k == "trunc_trap":
        return "trunc_trapping(%s)" % show_t(e[1])
    if k == "ftrunc":
        return "trunc(%s)" % show_t(e[1])
    return show(e)


# --------------------------------------------------------------------------------------------------
# WASM templates
W_BIN = {
    "F64Add": ("add", "f"), "F64Sub": ("sub", "f"), "F64Mul": ("mul", "f"), "F64Div": ("div", "f"),
    "F64Eq": ("eq", "f"), "F64Ne": ("ne", "f"), "F64Lt": ("lt", "f"), "F64Le": ("le", "f"), "F64Gt": ("gt", "f"), "F64Ge": ("ge", "f"),
    "I64Add": ("add", "i"), "I64Sub": ("sub", "i"), "I64Mul": ("mul", "i"), "I64DivS": ("div", "i"), "I64RemS": ("rem", "i"),
    "I64Eq": ("eq", "i"), "I64Ne": ("ne", "i"), "I64LtS": ("lt", "i"), "I64LeS": ("le", "i"), "I64GtS": ("gt", "i"), "I64GeS": ("ge", "i"),
    "I64And": ("and", "i"), "I64Or": ("or", "i"), "I64Xor": ("xor", "i"), "I64ShrS": ("shr", "i"), "I64Shl": ("shl", "i"),
    "I32And": ("and", "b"), "I32Or": ("or", "b"), "I32Xor": ("xor", "b"),
}
W_UN = {
    "F64Neg": lambda a: ("un", "neg", a, "f64"),
    "F64Abs": lambda a: ("fn", "f64::abs", (a,)),
    "F64Sqrt": lambda a: ("fn", "f64::sqrt", (a,)),
    "F64Trunc": lambda a: ("ftrunc", a),
    "F64Floor": lambda a: ("fn", "f64::floor", (a,)),
    "F64Ceil": lambda a: ("fn", "f64::ceil", (a,)),
    "F64ConvertI32U": lambda a: ("ucvt", a, "f64"),
    "F64ConvertI32S": lambda a: ("ucvt", a, "f64"),
    "I64ExtendI32U": lambda a: ("ucvt", a, "i64"),
    "I64TruncSatF64S": lambda a: ("cast", "FloatToInt", a, "f64", "i64"),
    "I64TruncF64S": lambda a: ("trunc_trap", a),
    "I64TruncF64U": lambda a: ("trunc_trap", a),
    "F64ConvertI64S": lambda a: ("cast", "IntToFloat", a, "i64", "f64"),
    "I32Eqz": lambda a: ("un", "not", a, "bool"),
    "I64Eqz": lambda a: ("bin", "eq", a, ("k", 0, "i64"), "i64"),
}


def wasm_paths(wl, variant, imports):
    """list of (opaque_conds, template_expr) for the arm of `variant` in the wasm lowering"""
    fn = wl.fn
    tb = wl.arm_target(variant)
    sx = SymEx(fn, payload_place=wl.primary.place, max_paths=64, facts=FACTS[0])
    try:
        paths = sx.run(tb)
    except PathLimit as e:
        raise Unsupported("wasm arm too large: %s" % e)
    out = []
    for p in paths:
        if p.end == "loop":
            raise Unsupported("wasm arm contains a loop")
        if p.end != "return":
            continue
        stack = []
        typed = None
        for evn in p.events:
            if evn[0] != "call":
                continue
            name, args = evn[1], evn[2]
            if name.endswith("::emit_value_load_typed") or name.endswith("::emit_value_load"):
                v = args[1]
                while v[0] in ("ref", "deref"):
                    v = v[1]
                if v[0] != "pay":
                    raise Unsupported("load of a non-operand value %s" % show(v))
                stack.append(("src", v[2], None))
                continue
            if name.endswith("wasm_encoder::Function::instruction") or name.endswith("Function::instruction"):
                ins = args[1]
                while ins[0] in ("ref", "deref"):
                    ins = ins[1]
                if ins[0] != "agg":
                    raise Unsupported("non-literal wasm instruction")
                iname = ins[1].rsplit("::", 1)[1]
                if iname in W_BIN:
                    op, ty = W_BIN[iname]
                    if len(stack) < 2:
                        raise Unsupported("stack underflow at %s" % iname)
                    b, a = stack.pop(), stack.pop()
                    stack.append(("bin", op, a, b, {"f": "f64", "i": "i64", "b": "bool"}[ty]))
                    typed = typed or ty
                elif iname in W_UN:
                    if not stack:
                        raise Unsupported("stack underflow at %s" % iname)
                    stack.append(W_UN[iname](stack.pop()))
                elif iname in ("F64Const", "I64Const", "I32Const"):
                    c = ins[2][0]
                    if c[0] == "k":
                        v = c[1]
                    elif c[0] == "agg" and c[2] and c[2][0][0] == "k":  # Ieee64 wrapper
                        v = c[2][0][1]
                    elif c[0] == "call" and c[2] and c[2][0][0] == "k":  # From<f64> for Ieee64
                        v = c[2][0][1]
                    else:
                        raise Unsupported("non-constant %s operand %s" % (iname, show(c)))
                    stack.append(("k", float(v) if iname == "F64Const" else int(v), iname[:3].lower()))
                elif iname == "Call":
                    tgt = ins[2][0]
                    fld = None
                    x = tgt
                    while x[0] in ("fld", "deref", "ref"):
                        if x[0] == "fld" and fld is None:
                            fld = x[2]
                        x = x[1]
                    if fld is None or fld not in imports:
                        raise Unsupported("call to a non-import function %s" % show(tgt))
                    method, arity = imports[fld]
                    if len(stack) < arity:
                        raise Unsupported("stack underflow at call")
                    a = [stack.pop() for _ in range(arity)][::-1]
                    stack.append(("fn", method, tuple(a)))
                else:
                    raise Unsupported("wasm instruction %s not modelled" % iname)
                continue
            if name.endswith("::infer_value_type") or name.endswith("::eq") or name.endswith("::ne"):
                continue
            raise Unsupported("wasm arm calls %s" % name.split("::")[-1])
        if len(stack) != 1:
            raise Unsupported("wasm arm leaves %d values on the stack" % len(stack))
        out.append((typed, stack[0]))
    if not out:
        raise Unsupported("no returning path")
    return out


# --------------------------------------------------------------------------------------------------
def str_of(fn, di, op):
    """string constant an operand refers to, following &*local chains"""
    for _ in range(6):
        s = const_str(op)
        if s is not None:
            return s
        if op[0] not in ("cp", "mv"):
            return None
        d = di.single_def(op[1][0])
        if d is None or d[1] is None:
            return None
        rv = d[2][5]
        if rv[0] == "use":
            op = rv[1]
        elif rv[0] == "ref":
            op = ["cp", [rv[1][0], []]]
        else:
            return None
    return None


def host_math_imports(facts, ck):
    """field of the wasm generator's import table -> (f64 method the host closure calls, arity).
    chain: field <- add_import_from(module,name) in wasmgen ; (module,name) -> closure registered with
    Linker::func_wrap in runtime/wasm.rs ; closure body -> the single f64 method it calls."""
    lang = facts.crate(roles.LANG)
    field_to_name = {}
    for f in lang.fns:
        if "::compiler::wasmgen" not in f.path:
            continue
        di = None
        for b, t in f.calls():
            c = callee(t) or ""
            if not c.endswith("::add_import_from"):
                continue
            di = di or DefIndex(f)
            strs = [str_of(f, di, a) for a in t[5]]
            strs = [x for x in strs if x is not None]
            if len(strs) < 2:
                continue
            # the destination temp is stored to self.rt.<field> in the successor block
            dest = t[6]
            nb = t[7]
            if nb is None:
                continue
            for s in f.bb[nb]["s"]:
                if s[KIND] == "a" and s[5][0] == "use" and s[5][1][0] in ("cp", "mv") and s[5][1][1][0] == dest[0]:
                    flds = [e[2] for e in s[4][1] if isinstance(e, list) and e[0] == "f"]
                    if flds:
                        field_to_name[flds[-1]] = (strs[0], strs[1])
    host = {}
    for f in lang.fns:
        if "::runtime::wasm" not in f.path:
            continue
        di = None
        for b, t in f.calls():
            c = callee(t) or ""
            if not c.endswith("::func_wrap"):
                continue
            di = di or DefIndex(f)
            strs = [str_of(f, di, a) for a in t[5]]
            strs = [x for x in strs if x is not None]
            if len(strs) < 2:
                continue
            full = callee_full(t) or ""
            # closure type appears in the generic args of func_wrap
            clo = None
            for part in full.split("{closure@")[1:]:
                pass
            # resolve through the closure aggregate moved into the call: look for closures of f by line
            for a in t[5]:
                if a[0] in ("cp", "mv") and not a[1][1]:
                    d = di.single_def(a[1][0])
                    if d and d[1] is not None and d[2][5][0] == "agg" and d[2][5][1][0] == "closure":
                        clo = facts.fn(d[2][5][1][1])
            if clo is None:
                # fn items (e.g. heap_alloc_host) are passed directly
                continue
            meths = [short_method(callee(tt) or "") for _, tt in clo.calls()]
            meths = [m for m in meths if m.startswith("f64::")]
            if len(meths) == 1:
                host[(strs[0], strs[1])] = (meths[0], clo.d["argc"] - 2)
    imports = {}
    for fld, key in field_to_name.items():
        if key in host:
            imports[fld] = host[key]
    ck.setcount("wasm_import_fields", len(field_to_name))
    ck.setcount("host_math_closures", len(host))
    return imports, field_to_name, host


def bytecode_map(facts, bl):
    """mir variant -> (vm variant, [payload indices in operand order]) for arms of the shape
    helper(self, VmInstruction::V, dst, v1[, v2])"""
    out = {}
    fn = bl.fn
    for v in sorted(bl.primary_handled()):
        tb = bl.arm_target(v)
        sx = SymEx(fn, payload_place=bl.primary.place, max_paths=16, max_steps=400)
        try:
            paths = sx.run(tb, stop_at_call=lambda name, t: any(a[0] == "c" and a[1] == "fn" and a[2].startswith(roles.VM_INSTR + "::") for a in t[5]))
        except PathLimit:
            continue
        if len(paths) != 1 or paths[0].end != "stopcall":
            continue
        evn = paths[0].events[-1]
        ctor = [a for a in evn[2] if a[0] == "fnc" and a[1].startswith(roles.VM_INSTR + "::")]
        if len(ctor) != 1:
            continue
        pays = []
        for a in evn[2]:
            x = a
            while x[0] in ("ref", "deref", "call") and len(x) > 1:
                if x[0] == "call":
                    # Arc::clone(&pay)
                    if x[2]:
                        x = x[2][0]
                    else:
                        break
                else:
                    x = x[1]
            if x[0] == "pay":
                pays.append(x[2])
        out[v] = (ctor[0][1].rsplit("::", 1)[1], pays, evn[1])
    return out


def helper_operand_order(facts, helper_path, ck):
    """in helper(self, ctor, dst, v1, v2): the ctor is invoked as ctor(dst', r1, r2) with r_i derived from v_i"""
    f = facts.fn(helper_path)
    if f is None:
        return None
    sx = SymEx(f, max_paths=8)
    try:
        paths = sx.run(0)
    except PathLimit:
        return None
    orders = set()
    for p in paths:
        for evn in p.events:
            if evn[0] == "call" and ("call_once" in evn[1] or evn[1] == "<fnptr>"):
                args = evn[2]
                # FnOnce::call_once(f, (dst, r1, r2))
                tup = args[-1]
                if tup[0] == "agg":
                    prov = []
                    for el in tup[2]:
                        prov.append(tuple(sorted(a for a in _args_in(el, facts, 0) if a != 1)))
                    orders.add(tuple(prov))
    return orders


def _args_in(e, facts, depth):
    out = set()
    if not isinstance(e, tuple):
        return out
    if e[0] == "arg":
        out.add(e[1])
        return out
    if e[0] == "fld" and e[1][0] == "call" and depth < 2:
        # field i of the tuple returned by a workspace helper: look inside it
        callee_name = e[1][1]
        g = facts.fn(callee_name)
        if g is not None and isinstance(e[2], int):
            sx = SymEx(g, max_paths=8)
            try:
                ps = sx.run(0)
            except PathLimit:
                ps = []
            for p in ps:
                r = p.env.get(0)
                if r and r[0] == "agg" and e[2] < len(r[2]):
                    inner = _args_in(r[2][e[2]], facts, depth + 1)
                    # map callee args back to caller expressions
                    for n in inner:
                        if n - 1 < len(e[1][2]):
                            out |= _args_in(e[1][2][n - 1], facts, depth + 1)
            return out
    for x in (e if (e and isinstance(e[0], tuple)) else e[1:]):
        if isinstance(x, tuple):
            out |= _args_in(x, facts, depth)
    return out


# operators whose two templates are written differently on purpose and were compared by hand + on the domain
SHAPE_EQUIV = {"ModF"}


def thorough_domain():
    """thorough tier: the class domain plus seeded random doubles over the whole exponent range and integer boundaries"""
    import os
    import random

    rnd = random.Random(int(os.environ.get("VERIF_SEED", "0") or 0))
    extra = []
    for _ in range(28):
        m = rnd.random() + 1.0
        e = rnd.randint(-1074, 1023)
        v = m * (2.0 ** e) if e > -1000 else 5e-324 * rnd.randint(1, 1 << 20)
        extra.append(v if rnd.random() < 0.5 else -v)
    extra += [2.0**53, 2.0**53 + 2.0, -(2.0**63), 2.0**63, 0.5, 1.5, -1.5, 1e-300, 1.7976931348623157e308]
    return F_DOMAIN + extra


def run(ck, facts, cg, anchors, tier):
    bl, wl, vd, prod = anchors
    FACTS[0] = facts
    global F_DOMAIN, I_DOMAIN
    if tier == "thorough":
        F_DOMAIN = thorough_domain()
        I_DOMAIN = I_DOMAIN + [3, -3, 2**31, -(2**31), 2**53, 12345678901234]
    ck.setcount("f64_domain_points", len(F_DOMAIN))
    ck.rule(
        R,
        "for every MIR operator lowered to a single VM register instruction, the value the VM arm stores and the value "
        "the emitted WASM instruction sequence computes are equal (as raw 64-bit words, NaN=NaN) on every point of the "
        "class domain; host math imports must call the same f64 method as the VM arm",
    )
    imports, field_to_name, host = host_math_imports(facts, ck)
    ck.floor(R, "math_imports_resolved", len(imports), 10)
    bmap = bytecode_map(facts, bl)
    ck.floor(R, "mir_ops_mapped_to_single_vm_instruction", len(bmap), 25)
    # operand order inside the helpers
    helpers = sorted({h for _, _, h in bmap.values()})
    for h in helpers:
        orders = helper_operand_order(facts, h, ck)
        hshort = h.split("::", 1)[1]
        if not orders:
            ck.note("operand order of %s could not be extracted" % hshort)
            continue
        for o in orders:
            # o = provenance per ctor argument: (dst, v1[, v2]) must come from helper args 3,4[,5] in order
            want = tuple((i,) for i in range(3, 3 + len(o)))
            if tuple(o) == want:
                ck.ok(R, "helper-order|%s" % hshort, {"helper": hshort, "ctor_args_from_params": [list(x) for x in o]})
            else:
                ck.bad(R, "helper-order|%s" % hshort, "%s passes its operands to the VM constructor in the order %s, expected %s" % (hshort, o, want), facts.fn(h).where())
    compared = 0
    skipped = []
    for m in sorted(bmap):
        vmv, pays, helper = bmap[m]
        if m not in prod:
            # operators the MIR generator never constructs are compared too (they are dormant, reported as notes)
            dormant = True
        else:
            dormant = False
        arity = len(pays) - 0
        try:
            vt = vm_template(vd, vmv)
        except Unsupported as e:
            skipped.append((m, "vm: %s" % e))
            continue
        if m not in wl.primary_handled():
            skipped.append((m, "no wasm arm"))
            continue
        try:
            wps = wasm_paths(wl, m, imports)
        except Unsupported as e:
            skipped.append((m, "wasm: %s" % e))
            continue
        # which payload indices are sources: in the MIR arm payload i corresponds to VM src operand position
        srcs = sorted({x[1] for x in _leaves(vt)})
        # VM payload: (dst, src1, src2) -> MIR payload (v1, v2): src k <-> v(k-1)
        is_int = any(x[2] == "i64" for x in _leaves(vt))
        dom = I_DOMAIN if is_int else F_DOMAIN
        n = len(srcs)
        worst = None
        npts = 0
        undecided = None
        for typed, wt in wps:
            if typed is not None and ((typed == "i") != is_int) and typed != "b":
                ck.note("%s: wasm has a typed path (%s) with no VM counterpart (VM always computes on %s)" % (m, typed, "i64" if is_int else "f64"))
                continue
            for point in itertools.product(dom, repeat=n):
                vm_val = {s: point[i] for i, s in enumerate(srcs)}
                w_val = {s - 1: point[i] for i, s in enumerate(srcs)}
                npts += 1
                try:
                    a = vm_eval(vt, vm_val)
                    b = ev(wt, w_val)
                except Unsupported as e:
                    undecided = str(e)
                    break
                except KeyError as e:
                    undecided = "operand mismatch %s" % e
                    break
                if raw(a) != raw(b):
                    worst = (point, a, b, wt)
                    break
            if worst or undecided:
                break
        if undecided:
            skipped.append((m, undecided))
            continue
        compared += 1
        desc = {"mir": m, "vm": vmv, "vm_template": [show_t(v) for _, _, v in vt], "wasm_template": [show_t(w) for _, w in wps], "points": npts, "dormant": dormant}
        if worst:
            point, a, b, wt = worst
            msg = "operator %s disagrees at %s: vm(%s)=%r wasm=%r ; vm template %s ; wasm template %s" % (
                m, tuple(point), vmv, a, b, " | ".join(show_t(v) for _, _, v in vt), show_t(wt))
            if dormant:
                ck.note("dormant (never constructed by mirgen): " + msg)
                ck.ok(R, "op|%s" % m, desc)
            else:
                ck.bad(R, "op|%s" % m, msg, "%s ; %s" % (vd.fn.where(), wl.fn.where()), desc)
        else:
            ck.ok(R, "op|%s" % m, desc)
        # ---- same computation, not only same values on the probe points: a VM arm that picks a different arithmetic
        # expression for particular operand values (a "fast path": x*x for x^2.0) agrees with the host's libm call on
        # almost every input and differs in the last bit on a few — no finite probe set is sure to contain one.  Every
        # non-constant value template of the VM arm must be the expression the WASM sequence computes.
        import re as _re

        def _shift(t):
            return _re.sub(r"src(\d+)", lambda mm: "src%d" % (int(mm.group(1)) - 1), t)

        vm_exprs = {_shift(show_t(v)) for _, _, v in vt if not _re.fullmatch(r"-?[0-9.]+(e-?[0-9]+)?", show_t(v))}
        w_exprs = {show_t(w) for _, w in wps}
        if vm_exprs and m not in SHAPE_EQUIV:
            extra = sorted(x for x in vm_exprs if x not in w_exprs)
            if extra and len(vm_exprs) > 1:
                ck.bad(R, "op-shape|%s" % m, "operator %s: the VM arm computes %s depending on the operand values, the WASM sequence always computes %s: a special-cased path (%s) is a different floating-point computation, equal on most operands and off by an ulp on some" % (m, " or ".join(sorted(vm_exprs)), " / ".join(sorted(w_exprs)), extra[0]), "%s ; %s" % (vd.fn.where(), wl.fn.where()))
            else:
                ck.ok(R, "op-shape|%s" % m)
    ck.floor(R, "operators_compared", compared, 25)
    ck.setcount("operators_not_comparable", len(skipped))
    for m, why in skipped:
        # the set of single-instruction operators is the rule's anchor: an operator whose template can no longer be
        # extracted would silently drop out of the comparison
        ck.bad(R, "unanalysable|%s" % m, "operator %s is lowered to one VM instruction but its template cannot be extracted for comparison (%s)" % (m, why), "%s ; %s" % (vd.fn.where(), wl.fn.where()))
    # truthiness of conditional jumps: VM JmpIfNeg vs wasm `if`
    truthiness(ck, facts, vd, wl, bl)


def _leaves(templ):
    out = set()

    def walk(e):
        if isinstance(e, tuple):
            if e and e[0] == "src":
                out.add(e)
                return
            for x in e:
                if isinstance(x, tuple):
                    walk(x)

    for conds, dst, val in templ:
        walk(val)
        for c, v, pos in conds:
            walk(c)
    return out


def truthiness(ck, facts, vd, wl, bl):
    """the condition test of JmpIf: VM jumps on (cond <= 0.0 / > 0.0); the wasm lowering converts the f64 condition to
    an i32 for `if`.  Extract both tests and compare them on the f64 domain."""
    # VM: find the arm(s) whose payload is compared and then alters the pc (JmpIfNeg)
    vm_tests = {}
    for v in sorted(vd.primary_handled()):
        if "Jmp" not in v or v == "Jmp":
            continue
        tb = vd.arm_target(v)
        sx = SymEx(vd.fn, payload_place=vd.primary.place, max_paths=32, call_hook=vm_hook)
        try:
            paths = sx.run(tb, stop_blocks=[vd.primary.block])
        except PathLimit:
            continue
        conds = []
        for p in paths:
            for c, val, pos in p.conds:
                n = vm_normalise(c)
                if not has_opaque(n) and n not in conds:
                    conds.append(n)
        if conds:
            vm_tests[v] = conds
    # WASM: every function of the wasm generator with an explicit arm for JmpIf: symbolic execution of that arm up
    # to the emission of `If`; the test is the instruction sequence between the load of the condition and `If`.
    from ..rules import cover as _cover
    lang = facts.crate(roles.LANG)
    wasm_tests = []
    for f in lang.fns:
        if "::compiler::wasmgen" not in f.path or f.kind == "promoted":
            continue
        cov = _cover.coverage(facts, f, roles.MIR_INSTR)
        if not cov or "JmpIf" not in cov.explicit:
            continue
        for sw, tb in cov.explicit["JmpIf"]:
            def is_if(name, t, f=f):
                return False
            sx = SymEx(f, payload_place=sw.place, max_paths=400, max_steps=20000, facts=facts)
            def stop(name, t):
                return False
            try:
                paths = sx.run(tb, stop_at_call=None, stop_blocks=())
            except PathLimit:
                paths = sx.paths
            for p in paths:
                seq = None
                done = False
                for evn in p.events:
                    if evn[0] != "call" or done:
                        continue
                    name, args = evn[1], evn[2]
                    if name.endswith(("::emit_value_load", "::emit_value_load_typed", "::emit_value_load_deref")):
                        v = args[1]
                        while v[0] in ("ref", "deref"):
                            v = v[1]
                        seq = [] if (v[0] == "pay" and v[1] == "JmpIf" and v[2] == 0) else None
                    elif name.endswith("Function::instruction") and seq is not None:
                        ins = args[1]
                        while ins[0] in ("ref", "deref"):
                            ins = ins[1]
                        if ins[0] != "agg":
                            seq = None
                            continue
                        iname = ins[1].rsplit("::", 1)[1]
                        if iname == "If":
                            wasm_tests.append((f, tuple(seq)))
                            done = True
                        else:
                            cst = None
                            if ins[2]:
                                c = ins[2][0]
                                if c[0] == "k":
                                    cst = c[1]
                                elif c[0] in ("agg", "call") and c[2] and c[2][0][0] == "k":
                                    cst = c[2][0][1]
                            seq.append((iname, cst))
    ck.setcount("vm_jump_tests", len(vm_tests))
    ck.setcount("wasm_if_sites", len(wasm_tests))
    if not vm_tests or not wasm_tests:
        ck.note("truthiness: could not extract both sides (vm=%d wasm=%d)" % (len(vm_tests), len(wasm_tests)))
        return
    seqs = {}
    for f, seq in wasm_tests:
        seqs.setdefault(seq, []).append(f.short)
    for v, conds in vm_tests.items():
        for c in conds:
            for seq, where in sorted(seqs.items(), key=lambda kv: str(kv[0])):
                if any(i.startswith("I64") for i, _ in seq):
                    ck.note("truthiness: integer-typed condition test %s in %s has no VM counterpart (the VM always tests the f64 view)" % ("+".join(i for i, _ in seq), sorted(set(where))[0]))
                    continue
                # interpret seq as unary test on one f64 operand
                try:
                    st = [("src", 0, "f64")]
                    for iname, cst in seq:
                        if iname in W_BIN:
                            op, ty = W_BIN[iname]
                            b_, a_ = st.pop(), st.pop()
                            st.append(("bin", op, a_, b_, "f64"))
                        elif iname in W_UN:
                            st.append(W_UN[iname](st.pop()))
                        elif iname in ("F64Const", "I64Const", "I32Const"):
                            st.append(("k", cst, "c"))
                        else:
                            raise Unsupported(iname)
                    if len(st) != 1:
                        raise Unsupported("stack")
                except (Unsupported, IndexError):
                    continue
                wt = st[0]
                srcs = sorted({x[1] for x in _leaves([([], None, c)])})
                if len(srcs) != 1:
                    continue
                pts = [(x, bool(ev(c, {srcs[0]: x})), bool(ev(wt, {0: x}))) for x in F_DOMAIN]
                mism_eq = [p for p in pts if p[1] != p[2]]
                mism_neg = [p for p in pts if p[1] == p[2]]
                # the VM test guards a jump *over* the then-block, the wasm test guards the then-block itself, so one
                # must be the negation of the other; take the polarity with fewer mismatches and report what is left
                polarity, mism = ("equal", mism_eq) if len(mism_eq) <= len(mism_neg) else ("negated", mism_neg)
                key = "truthiness|%s|%s" % (v, "+".join(i for i, _ in seq))
                desc = {"vm_test": show_t(c), "wasm_test": show_t(wt), "polarity": polarity, "sites": sorted(set(where))[:3]}
                if not mism:
                    ck.ok(R, key, desc)
                else:
                    x, a, b_ = mism[0]
                    ck.bad(
                        R,
                        key,
                        "branch condition of `if` differs for condition value %r: the VM %s the then-branch (jump test `%s`), "
                        "WASM %s it (test `%s`, emitted in %s)"
                        % (x, "skips" if a else "takes", show_t(c), "takes" if b_ else "skips", show_t(wt), ", ".join(sorted(set(where))[:3])),
                        vd.fn.where(),
                        desc,
                    )


def _instr_seq_before(f, b):
    """wasm instruction aggregates constructed in block b and its unique straight-line predecessors, stopping at a
    call to emit_value_load*: returns [(name, const)] in emission order, or None"""
    seq = []
    cur = b
    hops = 0
    first = True
    while hops < 12:
        blk = f.bb[cur]
        t = blk["t"]
        if not first and t[KIND] == "call":
            c = callee(t) or ""
            if c.endswith(("::emit_value_load_typed", "::emit_value_load", "::emit_value_load_deref")):
                return list(reversed(seq))
        for s in reversed(blk["s"]):
            if s[KIND] == "a" and s[5][0] == "agg" and s[5][1][0] == "adt" and "wasm_encoder" in s[5][1][1] and s[5][1][1].endswith("Instruction"):
                name = s[5][1][3]
                if name == "If":
                    continue
                cst = None
                if s[5][2] and s[5][2][0][0] == "c" and s[5][2][0][1] in ("f", "i"):
                    cst = float(s[5][2][0][3]) if s[5][2][0][1] == "f" else int(s[5][2][0][3])
                seq.append((name, cst))
        ps = [p for p in f.preds(cur) if not f.is_cleanup(p)]
        if len(ps) != 1:
            return None
        cur = ps[0]
        first = False
        hops += 1
    return None
