"""Anchors found by role (what a function does), with today's names only as tie-breakers."""
from .facts import KIND
from .rules import cover

MIR_INSTR = "mimium_lang::mir::Instruction"
VM_INSTR = "mimium_lang::runtime::vm::bytecode::Instruction"
EXPR = "mimium_lang::ast::Expr"
TYPE = "mimium_lang::types::Type"
LANG = "mimium_lang"

DERIVE_MARKS = (
    " as std::clone::Clone>",
    " as std::fmt::Debug>",
    " as std::fmt::Display>",
    "_serde::",
    " as std::cmp::PartialEq>",
    " as std::hash::Hash>",
    "serde_impl::",
    "impl std::fmt::Display for",
)


def is_derived(fn):
    return any(m in fn.path for m in DERIVE_MARKS)


def constructs_adt(fn, adt_prefix):
    """number of aggregate constructions / constructor-fn mentions of ADTs whose path starts with adt_prefix"""
    n = 0
    for b, blk in enumerate(fn.bb):
        if blk["c"]:
            continue
        for s in blk["s"]:
            if s[KIND] == "a":
                rv = s[5]
                if rv[0] == "agg" and rv[1][0] == "adt" and rv[1][1].startswith(adt_prefix):
                    n += 1
                for op in cover._rv_operands(rv):
                    if op[0] == "c" and op[1] == "fn" and op[2].startswith(adt_prefix):
                        n += 1
        t = blk["t"]
        if t[KIND] == "call":
            for op in t[5]:
                if op[0] == "c" and op[1] == "fn" and op[2].startswith(adt_prefix):
                    n += 1
    return n


def _pick(cands, prefer):
    if not cands:
        return None
    for c in cands:
        if c.fn.path.endswith(prefer):
            return c
    return max(cands, key=lambda c: len(c.primary_handled()))


def lowering_matchers(facts):
    """coverages of all non-derived functions of mimium_lang that switch on mir::Instruction with >= 40 arms"""
    return [
        c
        for c in cover.find_matchers(facts, LANG, MIR_INSTR, min_arms=40)
        if not is_derived(c.fn)
    ]


def bytecode_lowering(facts):
    c = [m for m in lowering_matchers(facts) if constructs_adt(m.fn, VM_INSTR + "::") >= 20 or constructs_adt(m.fn, VM_INSTR) >= 20]
    return _pick(c, "ByteCodeGenerator::emit_instruction")


def wasm_lowering(facts):
    c = [m for m in lowering_matchers(facts) if constructs_adt(m.fn, "wasm_encoder::") >= 20]
    return _pick(c, "WasmGenerator::translate_instruction")


def rust_lowering(facts):
    c = [m for m in lowering_matchers(facts) if "rustgen" in m.fn.path and m.fn.kind != "closure"]
    # the emitter is the one returning Result<_, String>
    c2 = [m for m in c if m.fn.local_ty(0).startswith("std::result::Result")]
    return _pick(c2 or c, "RustGenerator::emit_instruction")


def vm_dispatch(facts):
    c = [
        m
        for m in cover.find_matchers(facts, LANG, VM_INSTR, min_arms=50)
        if not is_derived(m.fn)
    ]
    return _pick(c, "Machine::execute")


def mirgen_fns(facts):
    """the MIR producers: every function under compiler::mirgen (the only module tree that builds MIR)"""
    return [f for f in facts.crate(LANG).fns if "::compiler::mirgen" in f.path and not is_derived(f)]


def non_derived(facts, crate=LANG):
    return [f for f in facts.crate(crate).fns if not is_derived(f)]
