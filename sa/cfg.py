"""CFG utilities over Fn facts: reachability, dominators, post-dominators, natural loops, def-use slices."""
from collections import deque

from .facts import KIND, term_succs


def reachable(fn, start=0, stop=None, avoid=()):
    """blocks reachable from start (inclusive) on normal edges, not passing through `avoid` blocks
    (an avoided block is not entered); `stop` blocks are included but not expanded."""
    stop = set(stop or ())
    avoid = set(avoid)
    seen = set()
    if start in avoid:
        return seen
    dq = deque([start])
    seen.add(start)
    while dq:
        b = dq.popleft()
        if b in stop:
            continue
        for s in fn.succs(b):
            if s in avoid or s in seen:
                continue
            seen.add(s)
            dq.append(s)
    return seen


def live_blocks(fn):
    return reachable(fn, 0)


def dominators(fn, entry=0):
    """dom[b] = set of blocks dominating b (iterative; fine for function-sized CFGs)"""
    blocks = sorted(reachable(fn, entry))
    allb = set(blocks)
    dom = {b: set(allb) for b in blocks}
    dom[entry] = {entry}
    # reverse post-order
    order = _rpo(fn, entry)
    changed = True
    while changed:
        changed = False
        for b in order:
            if b == entry:
                continue
            ps = [p for p in fn.preds(b) if p in allb]
            if not ps:
                new = {b}
            else:
                new = set.intersection(*(dom[p] for p in ps)) | {b}
            if new != dom[b]:
                dom[b] = new
                changed = True
    return dom


def _rpo(fn, entry=0):
    seen = set()
    post = []
    stack = [(entry, iter(fn.succs(entry)))]
    seen.add(entry)
    while stack:
        b, it = stack[-1]
        adv = False
        for s in it:
            if s not in seen:
                seen.add(s)
                stack.append((s, iter(fn.succs(s))))
                adv = True
                break
        if not adv:
            post.append(b)
            stack.pop()
    return list(reversed(post))


def exits(fn):
    """blocks whose terminator is `return` (normal exits)"""
    live = live_blocks(fn)
    return [b for b in live if fn.term(b)[KIND] == "return"]


def diverging_blocks(fn):
    """live blocks with no normal successor that are not returns (panics, unreachable, calls to `!`)"""
    live = live_blocks(fn)
    return [b for b in live if not fn.succs(b) and fn.term(b)[KIND] != "return"]


def can_reach_return(fn):
    """set of blocks from which a return is reachable on normal edges"""
    ok = set(exits(fn))
    dq = deque(ok)
    while dq:
        b = dq.popleft()
        for p in fn.preds(b):
            if p not in ok and not fn.is_cleanup(p):
                ok.add(p)
                dq.append(p)
    return ok


def postdominators(fn):
    """pdom[b] = blocks post-dominating b w.r.t. normal exits (virtual exit joins all `return`s and
    all diverging blocks)."""
    live = sorted(live_blocks(fn))
    allb = set(live)
    EXIT = -1
    succ = {}
    for b in live:
        s = [x for x in fn.succs(b) if x in allb]
        succ[b] = s if s else [EXIT]
    pdom = {b: set(allb) | {EXIT} for b in live}
    pdom[EXIT] = {EXIT}
    changed = True
    order = list(reversed(_rpo(fn, 0)))
    while changed:
        changed = False
        for b in order:
            new = set.intersection(*(pdom[s] for s in succ[b])) | {b}
            if new != pdom[b]:
                pdom[b] = new
                changed = True
    return pdom


def natural_loops(fn):
    """list of (header, body_blocks_set) for back edges t->h where h dominates t; loops with the same
    header are merged."""
    dom = dominators(fn)
    loops = {}
    for b in dom:
        for s in fn.succs(b):
            if s in dom.get(b, ()):  # back edge b -> s
                body = {s, b}
                stack = [b]
                while stack:
                    x = stack.pop()
                    if x == s:
                        continue
                    for p in fn.preds(x):
                        if p not in body and p in dom:
                            body.add(p)
                            stack.append(p)
                loops.setdefault(s, set()).update(body)
    return sorted(loops.items())


def defs_of_local(fn, local):
    """list of (block, index, stmt_or_term, kind) that assign the bare local: 'a' statements with place
    (local, []) and call terminators whose destination is the local."""
    out = []
    for b, blk in enumerate(fn.bb):
        if blk["c"]:
            continue
        for i, s in enumerate(blk["s"]):
            if s[KIND] == "a" and s[4][0] == local and not s[4][1]:
                out.append((b, i, s, "stmt"))
        t = blk["t"]
        if t[KIND] == "call" and t[6][0] == local and not t[6][1]:
            out.append((b, None, t, "call"))
    return out


class DefIndex:
    """per-function index: local -> definitions (statements assigning the whole local, calls writing it)"""

    def __init__(self, fn):
        self.fn = fn
        self.defs = {}
        self.partial = {}
        for b, blk in enumerate(fn.bb):
            if blk["c"]:
                continue
            for i, s in enumerate(blk["s"]):
                if s[KIND] == "a":
                    pl = s[4]
                    (self.defs if not pl[1] else self.partial).setdefault(pl[0], []).append((b, i, s))
            t = blk["t"]
            if t[KIND] == "call":
                pl = t[6]
                (self.defs if not pl[1] else self.partial).setdefault(pl[0], []).append((b, None, t))

    def single_def(self, local):
        d = self.defs.get(local, [])
        return d[0] if len(d) == 1 else None

    def resolve(self, op, depth=12):
        """follow Use/copy chains of temporaries back to the defining rvalue or call; returns
        ('const', op) | ('rv', stmt) | ('call', term) | ('arg', n) | ('place', place) | ('multi', local)"""
        for _ in range(depth):
            if op[0] == "c":
                return ("const", op)
            pl = op[1]
            if pl[1]:
                return ("place", pl)
            l = pl[0]
            if 1 <= l <= self.fn.d["argc"] and l not in self.defs:
                return ("arg", l)
            ds = self.defs.get(l, [])
            if len(ds) != 1:
                return ("multi", l)
            b, i, s = ds[0]
            if i is None:
                return ("call", s)
            rv = s[5]
            if rv[0] == "use":
                op = rv[1]
                continue
            return ("rv", s)
        return ("multi", -1)
