"""Path-enumerating symbolic execution of a region of one MIR body (no loops: a revisited block ends the
path as 'loop').  Used to extract operator templates (E4) and small per-arm effect summaries.

Expressions are tuples:
  ('k', value, ty)            constant (int/float/bool/str) ; ('fnc', path) fn item
  ('arg', n)                  function argument n (opaque)
  ('pay', variant, i)         payload field i of the matched enum value
  ('bin', op, a, b, ty) ('un', op, a, ty) ('cast', kind, a, from, to)
  ('call', callee, (args...)) result of a call (pure view)
  ('ref', e) ('deref', e) ('fld', e, name_or_idx) ('agg', kind, (ops...)) ('disc', e)
  ('unk', tag)
"""
from .facts import KIND, callee, callee_full


class PathLimit(Exception):
    pass


class Path:
    __slots__ = ("env", "conds", "events", "blocks", "end", "end_block")

    def __init__(self):
        self.env = {}
        self.conds = []
        self.events = []
        self.blocks = []
        self.end = None
        self.end_block = None

    def fork(self):
        p = Path()
        p.env = dict(self.env)
        p.conds = list(self.conds)
        p.events = list(self.events)
        p.blocks = list(self.blocks)
        return p


# budget multiplier: the thorough tier explores with larger path / step limits (set by ./check)
SCALE = 1


class SymEx:
    def __init__(self, fn, payload_place=None, max_paths=256, max_steps=4000, call_hook=None, facts=None, track_index=False):
        self.facts = facts
        self.fn = fn
        self.payload_place = payload_place  # place (local, proj) of the matched enum value
        self.max_paths = max_paths * SCALE
        self.max_steps = max_steps * SCALE
        self.call_hook = call_hook
        self.track_index = track_index
        self.paths = []
        self.steps = 0

    # ---- expression construction ------------------------------------------
    def const(self, op):
        k = op[1]
        if k == "i":
            ty = op[2]
            v = int(op[3])
            if ty == "bool":
                return ("k", bool(v), ty)
            return ("k", v, ty)
        if k == "f":
            v = op[3]
            if isinstance(v, str):
                v = float(v.lower())
            return ("k", float(v), op[2])
        if k == "s":
            return ("k", op[2], "&str")
        if k == "fn":
            return ("fnc", op[2])
        if k == "p":
            return self.promoted(op[2], op[3])
        return ("unk", "const:%s" % (op[3] if len(op) > 3 else "?"))

    def promoted(self, path, idx):
        """value of a promoted constant: run its (straight-line) body"""
        facts = self.facts or getattr(self.fn, "_facts", None)
        if facts is None:
            return ("unk", "promoted")
        g = facts.fn("%s::promoted[%d]" % (path, idx))
        if g is None:
            return ("unk", "promoted")
        sx = SymEx(g, max_paths=4, max_steps=200, facts=facts)
        try:
            ps = sx.run(0)
        except PathLimit:
            return ("unk", "promoted")
        if len(ps) == 1 and 0 in ps[0].env:
            return ps[0].env[0]
        return ("unk", "promoted")

    def place(self, path, pl):
        loc, proj = pl
        if self.payload_place is not None:
            pp = self.payload_place
            n = len(pp[1])
            if loc == pp[0] and proj[:n] == pp[1] and len(proj) >= n + 2:
                d, f = proj[n], proj[n + 1]
                if isinstance(d, list) and d[0] == "d" and isinstance(f, list) and f[0] == "f":
                    e = ("pay", d[2], f[1])
                    return self._project(e, proj[n + 2 :], path)
        key = loc
        e = path.env.get(key)
        if e is None:
            if 1 <= loc <= self.fn.d["argc"]:
                e = ("arg", loc)
            else:
                e = ("unk", "_%d" % loc)
        return self._project(e, proj, path)

    def _project(self, e, proj, path=None):
        for el in proj:
            if el == "*":
                e = e[1] if e[0] == "ref" else ("deref", e)
            elif isinstance(el, list) and el[0] == "f":
                if e[0] == "agg" and el[1] < len(e[2]):
                    e = e[2][el[1]]
                else:
                    e = ("fld", e, el[2] if (el[2] and "::" in el[2]) else el[1])
            elif isinstance(el, list) and el[0] == "d":
                e = ("down", e, el[2])
            elif self.track_index and path is not None and isinstance(el, list) and el[0] == "i":
                # `a[i]`: keep the symbolic value of the index (only for rules that ask for it)
                e = ("idx", e, path.env.get(el[1]) or (("arg", el[1]) if 1 <= el[1] <= self.fn.d["argc"] else ("unk", "_%d" % el[1])))
            else:
                e = ("idx", e)
        return e

    def operand(self, path, op):
        if op[0] == "c":
            return self.const(op)
        return self.place(path, op[1])

    def rvalue(self, path, rv):
        k = rv[0]
        if k == "use":
            return self.operand(path, rv[1])
        if k == "ref":
            return ("ref", self.place(path, rv[1]))
        if k == "raw":
            return ("ref", self.place(path, rv[1]))
        if k == "disc":
            return ("disc", self.place(path, rv[1]))
        if k == "agg":
            kind = rv[1]
            name = kind[0] if kind[0] != "adt" else "%s::%s" % (kind[1], kind[3])
            if kind[0] == "closure":
                name = "closure:" + kind[1]
            return ("agg", name, tuple(self.operand(path, o) for o in rv[2]))
        if k == "bin":
            return ("bin", rv[1], self.operand(path, rv[2]), self.operand(path, rv[3]), rv[4])
        if k == "un":
            return ("un", rv[1], self.operand(path, rv[2]), rv[3])
        if k == "cast":
            return ("cast", rv[1], self.operand(path, rv[2]), rv[3], rv[4])
        if k == "repeat":
            return ("agg", "repeat", (self.operand(path, rv[1]),))
        return ("unk", k)

    def assign(self, path, pl, e):
        loc, proj = pl
        if not proj:
            path.env[loc] = e
        else:
            # partial write: remember as an event, and make the local opaque-but-updated
            path.events.append(("store", self._lhs(path, pl), e))
            if len(proj) == 1 and isinstance(proj[0], list) and proj[0][0] == "f":
                base = path.env.get(loc)
                if base is not None and base[0] == "agg" and proj[0][1] < len(base[2]):
                    ops = list(base[2])
                    ops[proj[0][1]] = e
                    path.env[loc] = ("agg", base[1], tuple(ops))

    def _lhs(self, path, pl):
        return self.place(path, pl)

    # ---- driver --------------------------------------------------------------
    def run(self, start, stop_blocks=(), stop_at_call=None):
        """enumerate paths from `start`; a path ends at: return, a stop block, divergence, a loop, or when
        stop_at_call(callee, term) is true (that call is included in events)."""
        self.stop_blocks = set(stop_blocks)
        self.stop_at_call = stop_at_call
        p = Path()
        self._go(p, start)
        return self.paths

    def run_from(self, path, start, stop_blocks=(), stop_at_call=None):
        """continue the enumeration from an existing path state (its knowledge is kept, its block history is reset)"""
        self.stop_blocks = set(stop_blocks)
        self.stop_at_call = stop_at_call
        self.paths = []
        q = path.fork()
        q.blocks = []
        self._go(q, start)
        return self.paths

    def _finish(self, path, why, b):
        path.end = why
        path.end_block = b
        self.paths.append(path)
        if len(self.paths) > self.max_paths:
            raise PathLimit("more than %d paths" % self.max_paths)

    def _go(self, path, b):
        fn = self.fn
        while True:
            self.steps += 1
            if self.steps > self.max_steps:
                raise PathLimit("more than %d steps" % self.max_steps)
            if b in self.stop_blocks:
                return self._finish(path, "stop", b)
            if b in path.blocks:
                return self._finish(path, "loop", b)
            path.blocks.append(b)
            blk = fn.bb[b]
            for s in blk["s"]:
                if s[KIND] == "a":
                    self.assign(path, s[4], self.rvalue(path, s[5]))
            t = blk["t"]
            k = t[KIND]
            if k == "goto":
                b = t[4]
                continue
            if k == "return":
                return self._finish(path, "return", b)
            if k in ("unreachable", "resume", "abort", "other"):
                return self._finish(path, "diverge", b)
            if k == "drop":
                b = t[5]
                continue
            if k == "assert":
                path.events.append(("assert", self.operand(path, t[4]), t[5], t[6]))
                b = t[7]
                continue
            if k == "call":
                c = callee(t)
                args = tuple(self.operand(path, a) for a in t[5])
                name = c if c is not None else "<fnptr>"
                val = None
                if self.call_hook:
                    val = self.call_hook(self, path, t, name, args)
                if val is None:
                    val = ("call", name, args)
                path.events.append(("call", name, args, t))
                self.assign(path, t[6], val)
                if self.stop_at_call and self.stop_at_call(name, t):
                    return self._finish(path, "stopcall", b)
                if t[7] is None:
                    return self._finish(path, "diverge", b)
                b = t[7]
                continue
            if k == "switch":
                e = self.operand(path, t[4])
                neg = False
                while e[0] == "un" and e[1] == "not" and t[5] == "bool":
                    e = e[2]
                    neg = not neg
                cv = const_value(e)
                targets = t[6]
                if cv is None:
                    # prune infeasible re-tests: the same symbolic expression was already decided on this path
                    for ce, v, pos in path.conds:
                        if ce == e:
                            if pos:
                                cv = v
                            elif t[5] == "bool" and tuple(v) == (0,):
                                cv = 1
                            break
                if cv is not None:
                    if neg:
                        cv = 0 if int(cv) else 1
                    nb = t[7]
                    for v, tb in targets:
                        if int(v) == int(cv):
                            nb = tb
                    b = nb
                    continue
                # fork
                seen_vals = []
                branches = [(int(v), tb) for v, tb in targets]
                for v, tb in branches:
                    q = path.fork()
                    vv = (0 if v else 1) if neg else v
                    q.conds.append((e, vv, True))
                    q.events.append(("cond", e, vv, True))
                    seen_vals.append(v)
                    self._go(q, tb)
                # otherwise branch continues on this path object
                if fn.bb[t[7]]["t"][KIND] == "unreachable" and not fn.bb[t[7]]["s"]:
                    return  # exhaustive switch, no otherwise path
                if neg and t[5] == "bool" and tuple(seen_vals) == (0,):
                    # not(x) != 0  <=>  x == 0
                    path.conds.append((e, 0, True))
                    path.events.append(("cond", e, 0, True))
                else:
                    path.conds.append((e, tuple(seen_vals), False))
                    path.events.append(("cond", e, tuple(seen_vals), False))
                b = t[7]
                continue
            return self._finish(path, "diverge", b)


def mentions(e, needle):
    """does the expression tree `e` contain the sub-expression `needle`?"""
    if e == needle:
        return True
    if isinstance(e, tuple):
        return any(mentions(x, needle) for x in e if isinstance(x, tuple))
    return False


def vec_literal_hook(sx, path, t, name, args):
    """call_hook that gives `vec![a, b, c]` its elements: on this nightly the literal is
    `b = Box::new_uninit(); (*b.ptr).value = [a, b, c]; box_assume_init_into_vec_unsafe(b)` (the array is written through
    a raw pointer derived from the box), older forms are `into_vec(box [a, b, c])`.  Returns ("agg", "vec", elems)."""
    if not args:
        return None
    if "box_assume_init_into_vec" in name:
        box = args[0]
        for ev in reversed(path.events):
            if ev[0] == "store" and ev[2][0] == "agg" and ev[2][1] == "array" and mentions(ev[1], box):
                return ("agg", "vec", ev[2][2])
        return None
    if name.endswith("::into_vec"):
        a = args[0]
        while a[0] in ("cast", "ref"):
            a = a[2] if a[0] == "cast" else a[1]
        if a[0] == "agg" and a[1] == "array":
            return ("agg", "vec", a[2])
    return None


def const_value(e):
    if e[0] == "k" and isinstance(e[1], (int, bool)):
        return int(e[1])
    return None


def show(e, depth=0):
    """compact rendering for reports"""
    if depth > 8:
        return "…"
    k = e[0]
    if k == "k":
        return repr(e[1])
    if k == "pay":
        return "%s.%d" % (e[1], e[2])
    if k == "arg":
        return "arg%d" % e[1]
    if k == "bin":
        return "(%s %s %s)" % (show(e[2], depth + 1), e[1], show(e[3], depth + 1))
    if k == "un":
        return "%s(%s)" % (e[1], show(e[2], depth + 1))
    if k == "cast":
        return "(%s as %s)" % (show(e[2], depth + 1), e[4])
    if k == "call":
        n = e[1].split("::")[-1] if "::" in e[1] else e[1]
        return "%s(%s)" % (n, ", ".join(show(a, depth + 1) for a in e[2]))
    if k == "ref":
        return "&" + show(e[1], depth + 1)
    if k == "deref":
        return "*" + show(e[1], depth + 1)
    if k == "fld":
        n = e[2].split("::")[-1] if isinstance(e[2], str) else e[2]
        return "%s.%s" % (show(e[1], depth + 1), n)
    if k == "agg":
        return "%s(%s)" % (e[1].split("::")[-1], ", ".join(show(a, depth + 1) for a in e[2]))
    if k == "fnc":
        return "fn:" + e[1].split("::")[-1]
    if k == "down":
        return "%s as %s" % (show(e[1], depth + 1), e[2])
    if k == "disc":
        return "disc(%s)" % show(e[1], depth + 1)
    if k == "idx":
        return "%s[..]" % show(e[1], depth + 1)
    return "?%s" % (e[1],)
