//! Compile-fail witnesses for C19 (thorough tier): per-thread objects of the runtime cannot be sent to or shared
//! with another thread.  Each witness has a compiling twin that differs only by the offending line, so that a
//! witness whose path is merely wrong cannot pass.  Run with `cargo +nightly test --doc` (error codes are only
//! checked on nightly).

/// A VM cannot be moved to another thread (it holds `Rc`/`RefCell` upvalues).
/// ```compile_fail,E0277
/// fn assert_send<T: Send>() {}
/// assert_send::<mimium_lang::runtime::vm::Machine>();
/// ```
/// twin:
/// ```
/// fn assert_sized<T: Sized>() {}
/// assert_sized::<mimium_lang::runtime::vm::Machine>();
/// ```
pub struct MachineIsNotSend;

/// A VM cannot be shared between threads.
/// ```compile_fail,E0277
/// fn assert_sync<T: Sync>() {}
/// assert_sync::<mimium_lang::runtime::vm::Machine>();
/// ```
/// twin:
/// ```
/// fn assert_sized<T: Sized>() {}
/// assert_sized::<mimium_lang::runtime::vm::Machine>();
/// ```
pub struct MachineIsNotSync;

/// The compiler context is Send (by an audited `unsafe impl`) but must not be Sync: two threads must not compile
/// through one context at the same time.
/// ```compile_fail,E0277
/// fn assert_sync<T: Sync>() {}
/// assert_sync::<mimium_lang::compiler::Context>();
/// ```
/// twin:
/// ```
/// fn assert_send<T: Send>() {}
/// assert_send::<mimium_lang::compiler::Context>();
/// ```
pub struct ContextIsNotSync;

/// An execution context (compiler + plugins + VM) is confined to one thread.
/// ```compile_fail,E0277
/// fn assert_sync<T: Sync>() {}
/// assert_sync::<mimium_lang::ExecContext>();
/// ```
/// twin:
/// ```
/// fn assert_sized<T: Sized>() {}
/// assert_sized::<mimium_lang::ExecContext>();
/// ```
pub struct ExecContextIsNotSync;
