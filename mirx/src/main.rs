// mirx — fact extractor for the static-analysis checks under /verif.
//
// A rustc_private driver meant to be injected with RUSTC_WORKSPACE_WRAPPER under
// `cargo +nightly check`.  For every workspace crate it compiles it writes one JSON
// fact file (one write per rustc process) into $MIRX_OUT:
//   adts, statics, trait impls, and for every fn / assoc fn / closure body a
//   simplified but faithful MIR (blocks, assignments, calls with resolved callees,
//   switches, asserts), with source lines and macro-expansion backtraces.
// It never changes what rustc does with the crate (Compilation::Continue).
#![feature(rustc_private)]
#![allow(clippy::all)]

extern crate rustc_abi;
extern crate rustc_driver;
extern crate rustc_hir;
extern crate rustc_interface;
extern crate rustc_middle;
extern crate rustc_span;

use rustc_driver::Compilation;
use rustc_hir::def::DefKind;
use rustc_hir::def_id::{DefId, LOCAL_CRATE};
use rustc_middle::mir::{
    self, AggregateKind, BinOp, Body, CastKind, Const, ConstValue, Operand, Place, PlaceElem,
    Rvalue, StatementKind, TerminatorKind, UnOp,
};
use rustc_middle::ty::print::with_no_trimmed_paths;
use rustc_middle::ty::{self, Instance, Ty, TyCtxt, TypeVisitableExt, TypingEnv};
use rustc_span::{ExpnKind, Span};
use std::fmt::Write as _;

fn js(s: &str) -> String {
    let mut o = String::with_capacity(s.len() + 2);
    o.push('"');
    for c in s.chars() {
        match c {
            '"' => o.push_str("\\\""),
            '\\' => o.push_str("\\\\"),
            '\n' => o.push_str("\\n"),
            '\r' => o.push_str("\\r"),
            '\t' => o.push_str("\\t"),
            c if (c as u32) < 0x20 => {
                let _ = write!(o, "\\u{:04x}", c as u32);
            }
            c => o.push(c),
        }
    }
    o.push('"');
    o
}

struct Cx<'tcx> {
    tcx: TyCtxt<'tcx>,
    krate: String,
}

impl<'tcx> Cx<'tcx> {
    fn path(&self, did: DefId) -> String {
        let p = with_no_trimmed_paths!(self.tcx.def_path_str(did));
        if did.is_local() {
            format!("{}::{}", self.krate, p)
        } else {
            p
        }
    }
    fn ty(&self, t: Ty<'tcx>) -> String {
        with_no_trimmed_paths!(t.to_string())
    }

    fn line(&self, sp: Span) -> (usize, String) {
        let sm = self.tcx.sess.source_map();
        let sp = sp.source_callsite();
        if sp.is_dummy() {
            return (0, String::new());
        }
        let loc = sm.lookup_char_pos(sp.lo());
        let f = format!("{}", loc.file.name.prefer_local_unconditionally());
        (loc.line, f)
    }

    /// names of macros in the expansion backtrace, innermost first
    fn expn(&self, sp: Span) -> Vec<String> {
        let mut v = vec![];
        if !sp.from_expansion() {
            return v;
        }
        for e in sp.macro_backtrace() {
            match e.kind {
                ExpnKind::Macro(_, name) => v.push(name.to_string()),
                ExpnKind::Desugaring(d) => v.push(format!("desugar:{:?}", d)),
                ExpnKind::AstPass(p) => v.push(format!("astpass:{:?}", p)),
                _ => {}
            }
        }
        v
    }

    /// source text of the innermost panic-family macro call this span comes from
    fn panic_snippet(&self, sp: Span) -> Option<String> {
        if !sp.from_expansion() {
            return None;
        }
        let sm = self.tcx.sess.source_map();
        for e in sp.macro_backtrace() {
            if let ExpnKind::Macro(_, name) = e.kind {
                let n = name.as_str();
                if matches!(
                    n,
                    "panic"
                        | "unreachable"
                        | "unimplemented"
                        | "todo"
                        | "assert"
                        | "assert_eq"
                        | "assert_ne"
                        | "debug_assert"
                        | "debug_assert_eq"
                        | "debug_assert_ne"
                ) {
                    // keep going outward while the caller is still a panic-family macro of std
                    if let Ok(s) = sm.span_to_snippet(e.call_site) {
                        if !e.call_site.from_expansion()
                            || !matches!(n, "panic")
                        {
                            let mut s: String = s.chars().take(240).collect();
                            s = s.replace('\n', " ");
                            return Some(s);
                        }
                    }
                }
            }
        }
        None
    }

    fn place(&self, body: &Body<'tcx>, p: &Place<'tcx>) -> String {
        let mut o = String::new();
        let _ = write!(o, "[{},[", p.local.as_u32());
        let mut pty = mir::PlaceTy::from_ty(body.local_decls[p.local].ty);
        let mut first = true;
        for elem in p.projection.iter() {
            if !first {
                o.push(',');
            }
            first = false;
            match elem {
                PlaceElem::Deref => o.push_str("\"*\""),
                PlaceElem::Field(f, _) => {
                    let mut name = String::new();
                    match pty.ty.kind() {
                        ty::Adt(adt, _) => {
                            let vi = pty.variant_index.unwrap_or(rustc_abi::FIRST_VARIANT);
                            if vi.as_usize() < adt.variants().len() {
                                let v = adt.variant(vi);
                                if f.as_usize() < v.fields.len() {
                                    name = format!(
                                        "{}::{}::{}",
                                        self.path(adt.did()),
                                        v.name,
                                        v.fields[f].name
                                    );
                                }
                            }
                        }
                        ty::Closure(..) => name = "upvar".to_string(),
                        ty::Tuple(..) => name = "tuple".to_string(),
                        _ => {}
                    }
                    let _ = write!(o, "[\"f\",{},{}]", f.as_u32(), js(&name));
                }
                PlaceElem::Downcast(name, vi) => {
                    let n = name.map(|s| s.to_string()).unwrap_or_default();
                    let _ = write!(o, "[\"d\",{},{}]", vi.as_u32(), js(&n));
                }
                PlaceElem::Index(l) => {
                    let _ = write!(o, "[\"i\",{}]", l.as_u32());
                }
                PlaceElem::ConstantIndex { offset, from_end, .. } => {
                    let _ = write!(o, "[\"ci\",{},{}]", offset, from_end);
                }
                PlaceElem::Subslice { from, to, from_end } => {
                    let _ = write!(o, "[\"ss\",{},{},{}]", from, to, from_end);
                }
                _ => o.push_str("\"?\""),
            }
            pty = pty.projection_ty(self.tcx, elem);
        }
        o.push_str("]]");
        o
    }

    fn konst(&self, body_did: DefId, c: &Const<'tcx>) -> String {
        let tcx = self.tcx;
        let t = c.ty();
        let tys = self.ty(t);
        if let ty::FnDef(did, args) = t.kind() {
            let full = with_no_trimmed_paths!(tcx.def_path_str_with_args(*did, args));
            return format!("[\"c\",\"fn\",{},{}]", js(&self.path(*did)), js(&full));
        }
        if let Const::Unevaluated(uv, _) = c {
            if let Some(p) = uv.promoted {
                return format!("[\"c\",\"p\",{},{}]", js(&self.path(uv.def)), p.as_u32());
            }
        }
        let env = TypingEnv::post_analysis(tcx, body_did);
        if t.is_integral() || t.is_bool() || t.is_char() || t.is_floating_point() {
            if let Some(si) = c.try_eval_scalar_int(tcx, env) {
                let size = si.size();
                let bits = si.to_bits(size);
                if t.is_floating_point() {
                    let f = match size.bytes() {
                        8 => f64::from_bits(bits as u64),
                        4 => f32::from_bits(bits as u32) as f64,
                        _ => f64::NAN,
                    };
                    let fs = if f.is_finite() { format!("{:?}", f) } else { format!("\"{:?}\"", f) };
                    return format!("[\"c\",\"f\",{},{},\"{}\"]", js(&tys), fs, bits);
                }
                if t.is_signed() {
                    let v = size.sign_extend(bits) as i128;
                    return format!("[\"c\",\"i\",{},\"{}\"]", js(&tys), v);
                }
                return format!("[\"c\",\"i\",{},\"{}\"]", js(&tys), bits);
            }
        }
        // &str literals
        if let Const::Val(ConstValue::Slice { alloc_id, meta }, _) = c {
            if let ty::Ref(_, inner, _) = t.kind() {
                if inner.is_str() {
                    if let Some(ga) = tcx.try_get_global_alloc(*alloc_id) {
                        if let rustc_middle::mir::interpret::GlobalAlloc::Memory(a) = ga {
                            let bytes = a
                                .inner()
                                .inspect_with_uninit_and_ptr_outside_interpreter(0..(*meta as usize));
                            let s = String::from_utf8_lossy(bytes).to_string();
                            return format!("[\"c\",\"s\",{}]", js(&s));
                        }
                    }
                }
            }
        }
        let d = with_no_trimmed_paths!(format!("{}", c));
        let d: String = d.chars().take(300).collect();
        format!("[\"c\",\"o\",{},{}]", js(&tys), js(&d))
    }

    fn operand(&self, body: &Body<'tcx>, did: DefId, op: &Operand<'tcx>) -> String {
        match op {
            Operand::Copy(p) => format!("[\"cp\",{}]", self.place(body, p)),
            Operand::Move(p) => format!("[\"mv\",{}]", self.place(body, p)),
            Operand::Constant(c) => self.konst(did, &c.const_),
            #[allow(unreachable_patterns)]
            _ => "[\"c\",\"o\",\"?\",\"?\"]".to_string(),
        }
    }

    fn binop(b: BinOp) -> &'static str {
        match b {
            BinOp::Add | BinOp::AddUnchecked => "add",
            BinOp::AddWithOverflow => "add_ov",
            BinOp::Sub | BinOp::SubUnchecked => "sub",
            BinOp::SubWithOverflow => "sub_ov",
            BinOp::Mul | BinOp::MulUnchecked => "mul",
            BinOp::MulWithOverflow => "mul_ov",
            BinOp::Div => "div",
            BinOp::Rem => "rem",
            BinOp::BitXor => "xor",
            BinOp::BitAnd => "and",
            BinOp::BitOr => "or",
            BinOp::Shl | BinOp::ShlUnchecked => "shl",
            BinOp::Shr | BinOp::ShrUnchecked => "shr",
            BinOp::Eq => "eq",
            BinOp::Lt => "lt",
            BinOp::Le => "le",
            BinOp::Ne => "ne",
            BinOp::Ge => "ge",
            BinOp::Gt => "gt",
            BinOp::Cmp => "cmp",
            BinOp::Offset => "offset",
        }
    }

    fn rvalue(&self, body: &Body<'tcx>, did: DefId, rv: &Rvalue<'tcx>) -> String {
        let tcx = self.tcx;
        match rv {
            Rvalue::Use(op, ..) => format!("[\"use\",{}]", self.operand(body, did, op)),
            Rvalue::Ref(_, bk, p) => {
                let m = matches!(bk, mir::BorrowKind::Mut { .. });
                format!("[\"ref\",{},{}]", self.place(body, p), m)
            }
            Rvalue::RawPtr(k, p) => {
                format!("[\"raw\",{},{}]", self.place(body, p), js(&format!("{:?}", k)))
            }
            Rvalue::Discriminant(p) => {
                let pt = p.ty(body, tcx).ty;
                format!("[\"disc\",{},{}]", self.place(body, p), js(&self.ty(pt)))
            }
            Rvalue::Aggregate(kind, ops) => {
                let k = match &**kind {
                    AggregateKind::Adt(adid, vi, _, _, _) => {
                        let adt = tcx.adt_def(*adid);
                        let vn = adt.variant(*vi).name.to_string();
                        format!("[\"adt\",{},{},{}]", js(&self.path(*adid)), vi.as_u32(), js(&vn))
                    }
                    AggregateKind::Tuple => "[\"tuple\"]".to_string(),
                    AggregateKind::Array(_) => "[\"array\"]".to_string(),
                    AggregateKind::Closure(cd, _) => format!("[\"closure\",{}]", js(&self.path(*cd))),
                    AggregateKind::Coroutine(cd, _) => format!("[\"closure\",{}]", js(&self.path(*cd))),
                    AggregateKind::CoroutineClosure(cd, _) => {
                        format!("[\"closure\",{}]", js(&self.path(*cd)))
                    }
                    AggregateKind::RawPtr(..) => "[\"rawptr\"]".to_string(),
                };
                let mut o = format!("[\"agg\",{},[", k);
                for (i, op) in ops.iter().enumerate() {
                    if i > 0 {
                        o.push(',');
                    }
                    o.push_str(&self.operand(body, did, op));
                }
                o.push_str("]]");
                o
            }
            Rvalue::BinaryOp(b, ops) => {
                let (a, c) = &**ops;
                let at = a.ty(body, tcx);
                format!(
                    "[\"bin\",\"{}\",{},{},{}]",
                    Self::binop(*b),
                    self.operand(body, did, a),
                    self.operand(body, did, c),
                    js(&self.ty(at))
                )
            }
            Rvalue::UnaryOp(u, a) => {
                let n = match u {
                    UnOp::Not => "not",
                    UnOp::Neg => "neg",
                    UnOp::PtrMetadata => "ptrmeta",
                };
                let at = a.ty(body, tcx);
                format!("[\"un\",\"{}\",{},{}]", n, self.operand(body, did, a), js(&self.ty(at)))
            }
            Rvalue::Cast(k, op, to) => {
                let from = op.ty(body, tcx);
                let kn = match k {
                    CastKind::IntToInt => "IntToInt".to_string(),
                    CastKind::FloatToInt => "FloatToInt".to_string(),
                    CastKind::FloatToFloat => "FloatToFloat".to_string(),
                    CastKind::IntToFloat => "IntToFloat".to_string(),
                    CastKind::Transmute => "Transmute".to_string(),
                    CastKind::PtrToPtr => "PtrToPtr".to_string(),
                    CastKind::FnPtrToPtr => "FnPtrToPtr".to_string(),
                    other => {
                        let s = format!("{:?}", other);
                        s.split(|c: char| !c.is_alphanumeric()).next().unwrap_or("Other").to_string()
                    }
                };
                format!(
                    "[\"cast\",{},{},{},{}]",
                    js(&kn),
                    self.operand(body, did, op),
                    js(&self.ty(from)),
                    js(&self.ty(*to))
                )
            }
            Rvalue::Repeat(op, _) => format!("[\"repeat\",{}]", self.operand(body, did, op)),
            Rvalue::CopyForDeref(p) => format!("[\"use\",[\"cp\",{}]]", self.place(body, p)),
            Rvalue::ThreadLocalRef(d) => format!("[\"tls\",{}]", js(&self.path(*d))),
            other => {
                let s: String = format!("{:?}", other).chars().take(120).collect();
                format!("[\"other\",{}]", js(&s))
            }
        }
    }

    fn span_fields(&self, sp: Span, fn_file: &str) -> String {
        let (line, file) = self.line(sp);
        let ex = self.expn(sp);
        let mut o = format!("{}", line);
        o.push(',');
        if ex.is_empty() {
            o.push_str("null");
        } else {
            o.push('[');
            for (i, e) in ex.iter().enumerate() {
                if i > 0 {
                    o.push(',');
                }
                o.push_str(&js(e));
            }
            o.push(']');
        }
        o.push(',');
        if file == fn_file || file.is_empty() {
            o.push_str("null");
        } else {
            o.push_str(&js(&file));
        }
        o
    }

    fn body(&self, did: DefId, out: &mut String) {
        let tcx = self.tcx;
        let body: &Body<'tcx> = tcx.optimized_mir(did);
        self.one_body(did, body, None, out);
        let proms = tcx.promoted_mir(did);
        for (i, pb) in proms.iter_enumerated() {
            out.push(',');
            self.one_body(did, pb, Some(i.as_u32()), out);
        }
    }

    fn one_body(&self, did: DefId, body: &Body<'tcx>, promoted: Option<u32>, out: &mut String) {
        let tcx = self.tcx;
        let kind = match (promoted, tcx.def_kind(did)) {
            (Some(_), _) => "promoted",
            (_, DefKind::Fn) => "fn",
            (_, DefKind::AssocFn) => "assoc",
            (_, DefKind::Closure) => "closure",
            _ => "other",
        };
        let (line, file) = self.line(body.span);
        let root = tcx.typeck_root_def_id(did);
        let vis = if matches!(tcx.def_kind(did), DefKind::Fn | DefKind::AssocFn) {
            if tcx.visibility(did).is_public() { "pub" } else { "priv" }
        } else {
            "priv"
        };
        let _ = write!(
            out,
            "{{\"p\":{},\"k\":\"{}\",\"root\":{},\"file\":{},\"line\":{},\"vis\":\"{}\",\"argc\":{},",
            js(&match promoted {
                Some(i) => format!("{}::promoted[{}]", self.path(did), i),
                None => self.path(did),
            }),
            kind,
            js(&self.path(root)),
            js(&file),
            line,
            vis,
            body.arg_count
        );
        // impl-of (self type / trait) for assoc fns
        if let Some(parent) = tcx.opt_parent(did) {
            if matches!(tcx.def_kind(parent), DefKind::Impl { .. }) {
                let st = tcx.type_of(parent).instantiate_identity().skip_norm_wip();
                let _ = write!(out, "\"self_ty\":{},", js(&self.ty(st)));
                if let Some(tr) = tcx.impl_opt_trait_ref(parent) {
                    let tr = tr.instantiate_identity().skip_norm_wip();
                    let _ = write!(out, "\"trait\":{},", js(&self.path(tr.def_id)));
                }
            }
        }
        out.push_str("\"locals\":[");
        for (i, l) in body.local_decls.iter().enumerate() {
            if i > 0 {
                out.push(',');
            }
            out.push_str(&js(&self.ty(l.ty)));
        }
        out.push_str("],\"dbg\":[");
        let mut first = true;
        for v in body.var_debug_info.iter() {
            if let mir::VarDebugInfoContents::Place(p) = &v.value {
                if !first {
                    out.push(',');
                }
                first = false;
                let _ = write!(out, "[{},{}]", js(v.name.as_str()), self.place(body, p));
            }
        }
        out.push_str("],\"bb\":[");
        for (bi, bb) in body.basic_blocks.iter().enumerate() {
            if bi > 0 {
                out.push(',');
            }
            let _ = write!(out, "{{\"c\":{},\"s\":[", bb.is_cleanup);
            let mut first = true;
            for st in bb.statements.iter() {
                let s = match &st.kind {
                    StatementKind::Assign(b) => {
                        let (p, rv) = &**b;
                        Some(format!(
                            "\"a\",{},{}",
                            self.place(body, p),
                            self.rvalue(body, did, rv)
                        ))
                    }
                    StatementKind::SetDiscriminant { place, variant_index } => Some(format!(
                        "\"sd\",{},{}",
                        self.place(body, place),
                        variant_index.as_u32()
                    )),
                    StatementKind::Intrinsic(i) => {
                        let s: String = format!("{:?}", i).chars().take(120).collect();
                        Some(format!("\"intr\",{}", js(&s)))
                    }
                    _ => None,
                };
                if let Some(s) = s {
                    if !first {
                        out.push(',');
                    }
                    first = false;
                    let _ = write!(out, "[{},{}]", self.span_fields(st.source_info.span, &file), s);
                }
            }
            out.push_str("],\"t\":");
            let term = bb.terminator();
            let sp = term.source_info.span;
            let t = match &term.kind {
                TerminatorKind::Goto { target } => format!("\"goto\",{}", target.as_u32()),
                TerminatorKind::SwitchInt { discr, targets } => {
                    let dt = discr.ty(body, tcx);
                    let mut o = format!(
                        "\"switch\",{},{},[",
                        self.operand(body, did, discr),
                        js(&self.ty(dt))
                    );
                    for (i, (v, t)) in targets.iter().enumerate() {
                        if i > 0 {
                            o.push(',');
                        }
                        let _ = write!(o, "[\"{}\",{}]", v, t.as_u32());
                    }
                    let _ = write!(o, "],{}", targets.otherwise().as_u32());
                    o
                }
                TerminatorKind::Call { func, args, destination, target, unwind, .. } => {
                    let fty = func.ty(body, tcx);
                    let callee = match fty.kind() {
                        ty::FnDef(cd, cargs) => {
                            let full =
                                with_no_trimmed_paths!(tcx.def_path_str_with_args(*cd, cargs));
                            let env = TypingEnv::post_analysis(tcx, did);
                            let mut inst = String::from("null");
                            if !cargs.has_non_region_infer() {
                                if let Ok(Some(i)) = Instance::try_resolve(tcx, env, *cd, cargs) {
                                    let idid = i.def_id();
                                    if idid != *cd {
                                        inst = js(&self.path(idid));
                                    }
                                }
                            }
                            // self type of the first generic arg (useful for trait calls)
                            let a0 = cargs
                                .types()
                                .next()
                                .map(|t| js(&self.ty(t)))
                                .unwrap_or_else(|| "null".into());
                            format!(
                                "{{\"def\":{},\"full\":{},\"inst\":{},\"a0\":{}}}",
                                js(&self.path(*cd)),
                                js(&full),
                                inst,
                                a0
                            )
                        }
                        _ => format!(
                            "{{\"ptr\":{},\"ty\":{}}}",
                            self.operand(body, did, func),
                            js(&self.ty(fty))
                        ),
                    };
                    let mut o = format!("\"call\",{},[", callee);
                    for (i, a) in args.iter().enumerate() {
                        if i > 0 {
                            o.push(',');
                        }
                        o.push_str(&self.operand(body, did, &a.node));
                    }
                    let _ = write!(
                        o,
                        "],{},{},{}",
                        self.place(body, destination),
                        target.map(|t| t.as_u32().to_string()).unwrap_or("null".into()),
                        match unwind {
                            mir::UnwindAction::Cleanup(b) => b.as_u32().to_string(),
                            _ => "null".into(),
                        }
                    );
                    if let Some(sn) = self.panic_snippet(sp) {
                        let _ = write!(o, ",{}", js(&sn));
                    } else {
                        o.push_str(",null");
                    }
                    o
                }
                TerminatorKind::Assert { cond, expected, msg, target, .. } => {
                    let k: String = format!("{:?}", msg)
                        .split(|c: char| !c.is_alphanumeric())
                        .next()
                        .unwrap_or("")
                        .to_string();
                    format!(
                        "\"assert\",{},{},{},{}",
                        self.operand(body, did, cond),
                        expected,
                        js(&k),
                        target.as_u32()
                    )
                }
                TerminatorKind::Drop { place, target, .. } => {
                    format!("\"drop\",{},{}", self.place(body, place), target.as_u32())
                }
                TerminatorKind::Return => "\"return\"".to_string(),
                TerminatorKind::Unreachable => "\"unreachable\"".to_string(),
                TerminatorKind::UnwindResume => "\"resume\"".to_string(),
                TerminatorKind::UnwindTerminate(_) => "\"abort\"".to_string(),
                TerminatorKind::FalseEdge { real_target, .. } => {
                    format!("\"goto\",{}", real_target.as_u32())
                }
                TerminatorKind::FalseUnwind { real_target, .. } => {
                    format!("\"goto\",{}", real_target.as_u32())
                }
                TerminatorKind::Yield { resume, .. } => format!("\"goto\",{}", resume.as_u32()),
                TerminatorKind::CoroutineDrop => "\"return\"".to_string(),
                other => {
                    let s: String = format!("{:?}", other).chars().take(80).collect();
                    format!("\"other\",{}", js(&s))
                }
            };
            let _ = write!(out, "[{},{}]}}", self.span_fields(sp, &file), t);
        }
        out.push_str("]}");
    }
}

struct Cb;

impl rustc_driver::Callbacks for Cb {
    fn after_analysis<'tcx>(
        &mut self,
        _c: &rustc_interface::interface::Compiler,
        tcx: TyCtxt<'tcx>,
    ) -> Compilation {
        let outdir = match std::env::var("MIRX_OUT") {
            Ok(d) => d,
            Err(_) => return Compilation::Continue,
        };
        let krate = tcx.crate_name(LOCAL_CRATE).to_string();
        if krate.starts_with("build_script") {
            return Compilation::Continue;
        }
        let cx = Cx { tcx, krate: krate.clone() };
        let mut out = String::with_capacity(1 << 24);
        let ctypes: Vec<String> =
            tcx.crate_types().iter().map(|c| format!("{:?}", c)).collect();
        let _ = write!(
            out,
            "{{\"crate\":{},\"crate_types\":{},\"is_test\":{},",
            js(&krate),
            js(&ctypes.join(",")),
            tcx.sess.is_test_crate()
        );

        // ADTs, statics, impls
        let mut adts = String::from("\"adts\":[");
        let mut statics = String::from("\"statics\":[");
        let mut impls = String::from("\"impls\":[");
        let (mut fa, mut fs, mut fi) = (true, true, true);
        for ld in tcx.hir_crate_items(()).definitions() {
            let did = ld.to_def_id();
            match tcx.def_kind(did) {
                DefKind::Enum | DefKind::Struct => {
                    let adt = tcx.adt_def(did);
                    if !fa {
                        adts.push(',');
                    }
                    fa = false;
                    let (line, file) = cx.line(tcx.def_span(did));
                    let _ = write!(
                        adts,
                        "{{\"p\":{},\"enum\":{},\"file\":{},\"line\":{},\"variants\":[",
                        js(&cx.path(did)),
                        adt.is_enum(),
                        js(&file),
                        line
                    );
                    for (i, (vi, v)) in adt.variants().iter_enumerated().enumerate() {
                        if i > 0 {
                            adts.push(',');
                        }
                        let discr = if adt.is_enum() {
                            adt.discriminant_for_variant(tcx, vi).val.to_string()
                        } else {
                            "0".to_string()
                        };
                        let _ = write!(
                            adts,
                            "{{\"n\":{},\"d\":\"{}\",\"f\":[",
                            js(v.name.as_str()),
                            discr
                        );
                        for (j, f) in v.fields.iter().enumerate() {
                            if j > 0 {
                                adts.push(',');
                            }
                            let ft = tcx.type_of(f.did).instantiate_identity().skip_norm_wip();
                            let _ = write!(adts, "[{},{}]", js(f.name.as_str()), js(&cx.ty(ft)));
                        }
                        adts.push_str("]}");
                    }
                    adts.push_str("]}");
                }
                DefKind::Static { mutability, nested, .. } => {
                    if nested {
                        continue;
                    }
                    if !fs {
                        statics.push(',');
                    }
                    fs = false;
                    let t = tcx.type_of(did).instantiate_identity().skip_norm_wip();
                    let env = TypingEnv::post_analysis(tcx, did);
                    let freeze = t.is_freeze(tcx, env);
                    let (line, file) = cx.line(tcx.def_span(did));
                    let _ = write!(
                        statics,
                        "{{\"p\":{},\"ty\":{},\"mut\":{},\"freeze\":{},\"tls\":{},\"file\":{},\"line\":{}}}",
                        js(&cx.path(did)),
                        js(&cx.ty(t)),
                        mutability.is_mut(),
                        freeze,
                        tcx.is_thread_local_static(did),
                        js(&file),
                        line
                    );
                }
                DefKind::Impl { of_trait: true } => {
                    if let Some(tr) = tcx.impl_opt_trait_ref(did) {
                        let tr = tr.instantiate_identity().skip_norm_wip();
                        if !fi {
                            impls.push(',');
                        }
                        fi = false;
                        let (line, file) = cx.line(tcx.def_span(did));
                        let h = tcx.impl_trait_header(did);
                        let uns = format!("{:?}", h.safety).contains("Unsafe");
                        let neg = format!("{:?}", h.polarity).contains("Negative");
                        let _ = write!(
                            impls,
                            "{{\"trait\":{},\"self\":{},\"unsafe\":{},\"neg\":{},\"file\":{},\"line\":{}}}",
                            js(&cx.path(tr.def_id)),
                            js(&cx.ty(tr.self_ty())),
                            uns,
                            neg,
                            js(&file),
                            line
                        );
                    }
                }
                _ => {}
            }
        }
        adts.push(']');
        statics.push(']');
        impls.push(']');
        out.push_str(&adts);
        out.push(',');
        out.push_str(&statics);
        out.push(',');
        out.push_str(&impls);
        out.push_str(",\"fns\":[");
        let mut first = true;
        for ld in tcx.hir_body_owners() {
            let did = ld.to_def_id();
            if !matches!(tcx.def_kind(did), DefKind::Fn | DefKind::AssocFn | DefKind::Closure) {
                continue;
            }
            if !first {
                out.push(',');
            }
            first = false;
            cx.body(did, &mut out);
        }
        out.push_str("]}");
        let id = format!("{:x}", tcx.stable_crate_id(LOCAL_CRATE).as_u64());
        let fname = format!("{}/{}.{}.json", outdir, krate, id);
        let tmp = format!("{}.tmp{}", fname, std::process::id());
        if std::fs::write(&tmp, out).is_ok() {
            let _ = std::fs::rename(&tmp, &fname);
        }
        Compilation::Continue
    }
}

fn main() {
    let mut args: Vec<String> = std::env::args().collect();
    // RUSTC_WORKSPACE_WRAPPER passes the real rustc path as argv[1]
    if args.len() > 1 && (args[1].ends_with("rustc") || args[1].contains("/rustc")) {
        args.remove(1);
    }
    let mut cb = Cb;
    rustc_driver::run_compiler(&args, &mut cb);
}
