#!/usr/bin/env python3
"""Regenerates the large reproducer programs referenced in DESIGN.md section 6."""
import sys, os
out = sys.argv[1] if len(sys.argv) > 1 else "."
# F6: array literal with > 2049 elements (VM bytecodegen panics, WASM fine)
open(os.path.join(out, "e2_big_array.mmm"), "w").write(
    "fn dsp(){\n let a = [" + ",".join("1.0" for _ in range(2100)) + "]\n a[3]\n}\n")
# F4: 300 global words, g43 aliases g299 on the VM (GlobalPos = u8)
open(os.path.join(out, "e3b_many_globals_vm.mmm"), "w").write(
    "".join(f"let g{i} = {i}.0\n" for i in range(300)) + "fn dsp(){ g43 + g299 }\n")
# F5: 150 globals overflow the 256..512 region of WASM linear memory
open(os.path.join(out, "e4b_many_globals_wasm.mmm"), "w").write(
    "".join(f"let g{i} = {i}.0\n" for i in range(150))
    + "fn dsp(){ let t = (1.0, 2.0, 3.0, 4.0)\n let (a,b,c,d) = t\n a + g100 + g120 + d }\n")
