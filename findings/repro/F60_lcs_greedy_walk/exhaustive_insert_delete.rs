use state_tree::{patch::apply_patches, tree::StateTreeSkeleton, tree_diff::take_diff};
type Sk = StateTreeSkeleton<u64>;
fn leaves() -> Vec<Sk> { vec![Sk::Mem(1), Sk::Mem(2), Sk::Feed(1), Sk::Delay { len: 1 }] }
fn trees(n: usize) -> Vec<Sk> {
    let mut out = vec![];
    if n == 0 { return out; }
    if n == 1 { out.extend(leaves()); }
    for forest in forests(n - 1) {
        if forest.is_empty() { continue; }
        out.push(Sk::FnCall(forest.into_iter().map(Box::new).collect()));
    }
    out
}
fn forests(n: usize) -> Vec<Vec<Sk>> {
    if n == 0 { return vec![vec![]]; }
    let mut out = vec![];
    for first in 1..=n {
        for t in trees(first) {
            for rest in forests(n - first) {
                let mut v = vec![t.clone()];
                v.extend(rest);
                out.push(v);
            }
        }
    }
    out
}
fn show(t: &Sk) -> String {
    match t {
        Sk::Mem(n) => format!("M{n}"),
        Sk::Feed(n) => format!("S{n}"),
        Sk::Delay { len } => format!("D{len}"),
        Sk::FnCall(c) => format!("F({})", c.iter().map(|c| show(c)).collect::<Vec<_>>().join(",")),
    }
}
// all trees obtained by inserting `sub` as a new child at any position of any FnCall node of t
fn insertions(t: &Sk, sub: &Sk, out: &mut Vec<Sk>) {
    if let Sk::FnCall(c) = t {
        for pos in 0..=c.len() {
            let mut v: Vec<Box<Sk>> = c.clone();
            v.insert(pos, Box::new(sub.clone()));
            out.push(Sk::FnCall(v));
        }
        for (i, ch) in c.iter().enumerate() {
            let mut inner = vec![];
            insertions(ch, sub, &mut inner);
            for r in inner {
                let mut v: Vec<Box<Sk>> = c.clone();
                v[i] = Box::new(r);
                out.push(Sk::FnCall(v));
            }
        }
    }
}
fn carried(old: &Sk, new: &Sk) -> (usize, usize, usize) {
    let osz = old.total_size() as usize;
    let nsz = new.total_size() as usize;
    let old_storage: Vec<u64> = (1..=osz as u64).collect();
    let mut new_storage = vec![0u64; nsz];
    let patches: Vec<_> = take_diff(old, new).into_iter().collect();
    apply_patches(&mut new_storage, &old_storage, &patches);
    let mut seen = std::collections::HashSet::new();
    let mut dup = 0;
    for w in new_storage.iter().filter(|w| **w != 0) { if !seen.insert(*w) { dup += 1; } }
    (seen.len(), osz, dup)
}
#[test]
fn exhaustive_insert_delete() {
    let maxn: usize = std::env::var("MAXN").ok().and_then(|s| s.parse().ok()).unwrap_or(5);
    let mut subs = vec![];
    for k in 1..=3 { subs.extend(trees(k)); }
    let (mut total, mut bad_ins, mut bad_del, mut dups) = (0usize, 0usize, 0usize, 0usize);
    let mut examples = vec![];
    for n in 2..=maxn {
        for t in trees(n) {
            for sub in &subs {
                let mut news = vec![];
                insertions(&t, sub, &mut news);
                for new in news {
                    total += 1;
                    let (c, osz, d) = carried(&t, &new);
                    dups += d;
                    if c != osz { bad_ins += 1; if examples.len() < 8 { examples.push(format!("INS {} -> {} carried {}/{}", show(&t), show(&new), c, osz)); } }
                    let (c2, _o2, d2) = carried(&new, &t);
                    dups += d2;
                    let nsz = t.total_size() as usize;
                    if c2 != nsz { bad_del += 1; if examples.len() < 8 { examples.push(format!("DEL {} -> {} carried {}/{}", show(&new), show(&t), c2, nsz)); } }
                }
            }
        }
    }
    println!("RESULT pairs={total} bad_insert={bad_ins} bad_delete={bad_del} dup_words={dups}");
    for e in examples { println!("  {e}"); }
}
