use mimium_lang::compiler::wasmgen::WasmGenerator;
use mimium_lang::runtime::wasm::WasmRuntime;
use mimium_lang::{Config, ExecContext};
use std::sync::Arc;

fn alloc_ptrs(src: &str, n: usize) -> Vec<i32> {
    let mut ctx = ExecContext::new([].into_iter(), None, Config::default());
    ctx.prepare_compiler();
    let ext_fns = ctx.get_extfun_types();
    let mir = ctx.get_compiler().unwrap().emit_mir(src).map_err(|_| "compile").unwrap();
    let mut wasmgen = WasmGenerator::new(Arc::new(mir), &ext_fns);
    let bytes = wasmgen.generate().unwrap();
    let mut rt = WasmRuntime::new(&ext_fns, None).unwrap();
    let mut module = rt.load_module(&bytes).unwrap();
    let _ = module.call_function("main", &[]);
    let mut out = vec![module.get_alloc_ptr().unwrap()];
    for _ in 0..n {
        module.call_function("dsp", &[]).unwrap();
        out.push(module.get_alloc_ptr().unwrap());
    }
    out
}

#[test]
fn entry_function_gives_back_what_it_allocated() {
    let src = r#"
fn dsp(){
    let k = 1.0
    let f = | | { k + 1.0 }
    f()
}
"#;
    let p = alloc_ptrs(src, 5);
    println!("{p:?}");
    assert!(p.windows(2).all(|w| w[0] == w[1]), "alloc pointer after each dsp call: {p:?}");
}
