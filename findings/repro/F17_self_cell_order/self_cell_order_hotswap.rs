//! F17: the `self` cell is read at offset 0 of the function's state; the published layout must list it first.
use mimium_lang::{Config, ExecContext, runtime::vm};

fn compile(src: &str) -> vm::Program {
    let mut ctx = ExecContext::new([].into_iter(), None, Config::default());
    ctx.prepare_machine(src).expect("compile failed");
    ctx.take_vm().unwrap().prog
}
fn boot(src: &str) -> vm::Machine {
    let mut ctx = ExecContext::new([].into_iter(), None, Config::default());
    ctx.prepare_machine_with_bytecode(compile(src));
    let mut m = ctx.take_vm().unwrap();
    m.execute_main();
    m
}
fn tick(m: &mut vm::Machine) -> f64 {
    let rc = m.execute_entry("dsp");
    assert!(rc >= 0);
    vm::Machine::get_as_array::<f64>(m.get_top_n(1))[0]
}

#[test]
fn untouched_mem_cell_next_to_self_survives_an_edit() {
    let before = "fn dsp(){\n let y = mem(1.0)\n self + y\n}";
    // the edit appends one new cell; `y`'s cell and the `self` cell are untouched
    let after = "fn dsp(){\n let y = mem(1.0)\n let z = delay(4.0, 2.0, 1.0)\n self + y + z * 0.0\n}";
    let mut m = boot(before);
    let first: Vec<f64> = (0..5).map(|_| tick(&mut m)).collect();
    let mut m = m.new_resume(compile(after));
    let rest: Vec<f64> = (0..3).map(|_| tick(&mut m)).collect();
    let mut r = boot(after);
    let want: Vec<f64> = (0..8).map(|_| tick(&mut r)).collect();
    assert_eq!(first, want[..5]);
    assert_eq!(rest, want[5..]);
}
