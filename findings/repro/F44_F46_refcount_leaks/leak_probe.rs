use mimium_lang::ExecContext;
use mimium_lang::runtime::vm::Machine;

fn counts(src: &str, n1: usize, n2: usize) -> ((usize, usize), (usize, usize)) {
    let mut ctx = ExecContext::new([].into_iter(), None, Default::default());
    ctx.prepare_machine(src).expect("failed to compile");
    let _ = ctx.run_main();
    let vm = ctx.get_vm_mut().unwrap();
    let mut step = |vm: &mut Machine| { assert!(vm.execute_entry("dsp") >= 0); };
    (0..n1).for_each(|_| step(vm));
    let first = (vm.closures.len(), vm.heap.len());
    (n1..n2).for_each(|_| step(vm));
    let second = (vm.closures.len(), vm.heap.len());
    (first, second)
}

#[test]
fn probe() {
    let progs: Vec<(&str, &str)> = vec![
        ("closure passed as argument", "fn app(f, x){ f(x) }\nfn dsp(){ app(|x| x * 2.0, 3.0) }"),
        ("closure returned", "fn mk(a){ |x| x + a }\nfn dsp(){ let g = mk(2.0)\n g(1.0) }"),
        ("list passed, ignored", "type rec List = Nil | Cons(float, List)\nfn f(l: List) -> float { 1.0 }\nfn dsp() -> float { let l = Cons(1.0, Nil)\n f(l) }"),
        ("list matched in place", "type rec List = Nil | Cons(float, List)\nfn dsp() -> float { let l = Cons(1.0, Nil)\n match l { Nil => 0.0, Cons(h, t) => h } }"),
        ("list let-bound only", "type rec List = Nil | Cons(float, List)\nfn dsp() -> float { let l = Cons(1.0, Nil)\n 1.0 }"),
        ("tuple projection of list", "type rec List = Nil | Cons(float, List)\nfn dsp() -> float { let p = (Cons(1.0, Nil), 2.0)\n let q = p.0\n p.1 }"),
    ];
    for (name, src) in progs {
        let (a, b) = counts(src, 50, 100);
        println!("PROBE {name}: after50={a:?} after100={b:?} {}", if a == b { "bounded" } else { "GROWS" });
    }
}
