use mimium_lang::ExecContext;
use mimium_lang::runtime::vm::Machine;

fn counts(src: &str, n1: usize, n2: usize) -> ((usize, usize), (usize, usize)) {
    let mut ctx = ExecContext::new([].into_iter(), None, Default::default());
    ctx.prepare_machine(src).expect("failed to compile");
    let _ = ctx.run_main();
    let vm = ctx.get_vm_mut().unwrap();
    let mut step = |vm: &mut Machine| { assert!(vm.execute_entry("dsp") >= 0); };
    (0..n1).for_each(|_| step(vm));
    let first = (vm.closures.len(), vm.heap.len());
    (n1..n2).for_each(|_| step(vm));
    let second = (vm.closures.len(), vm.heap.len());
    (first, second)
}

#[test]
fn probe() {
    let progs: Vec<(&str, &str)> = vec![
        ("let tuple pattern with list", "type rec List = Nil | Cons(float, List)\nfn dsp() -> float { let (l, g) = (Cons(1.0, Nil), 2.0)\n g }"),
        ("match tuple pattern in constructor", "type rec List = Nil | Cons(float, List)\ntype P = Pair((List, float)) | Zero\nfn dsp() -> float { let p = Pair((Cons(1.0, Nil), 2.0))\n match p { Pair((l, g)) => g, Zero => 0.0 } }"),
        ("tuple match with payload", "type rec List = Nil | Cons(float, List)\nfn dsp() -> float { let l = Cons(1.0, Nil)\n match (l, 1.0) { (Cons(h, t), 1) => h, _ => 0.0 } }"),
    ];
    for (name, src) in progs {
        let (a, b) = counts(src, 50, 100);
        println!("PROBE {name}: after50={a:?} after100={b:?} {}", if a == b { "bounded" } else { "GROWS" });
    }
}
