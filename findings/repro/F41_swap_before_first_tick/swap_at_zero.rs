//! Hot swap before the first dsp tick (swap time 0).
use mimium_lang::{Config, ExecContext, runtime::vm};

fn compile(src: &str) -> vm::Program {
    let mut ctx = ExecContext::new([].into_iter(), None, Config::default());
    ctx.prepare_machine(src).expect("compile failed");
    ctx.take_vm().unwrap().prog
}
fn boot(src: &str) -> vm::Machine {
    let mut ctx = ExecContext::new([].into_iter(), None, Config::default());
    ctx.prepare_machine_with_bytecode(compile(src));
    let mut m = ctx.take_vm().unwrap();
    m.execute_main();
    m
}
fn tick(m: &mut vm::Machine) -> f64 {
    let rc = m.execute_entry("dsp");
    assert!(rc >= 0);
    vm::Machine::get_as_array::<f64>(m.get_top_n(1))[0]
}

#[test]
fn swap_before_first_tick() {
    let before = "fn ctr(){ self + 1.0 }\nfn dsp(){ ctr() }";
    let after = "fn ctr(){ self + 1.0 }\nfn dsp(){ ctr() + mem(1.0) }";
    let m = boot(before);
    let mut m = m.new_resume(compile(after));
    let out: Vec<f64> = (0..3).map(|_| tick(&mut m)).collect();
    assert_eq!(out, vec![1.0, 3.0, 4.0]); // = the edited program run from time 0
}
