//! Demonstration for C08 / round 3 / mut2 (WASM backend hot-swap, consumer of the
//! state migration plan).
//!
//! Place this file at
//!   crates/lib/mimium-lang/tests/c08_r3_mut2_wasm_hotswap.rs
//! and run
//!   cargo test --offline -p mimium-lang --test c08_r3_mut2_wasm_hotswap
//!
//! The payload handed to `try_hot_swap` is assembled exactly the way
//! `mimium-cli` does it (prewarmed engine + plan from
//! `state_tree::build_state_storage_patch_plan`, whole-buffer copy for identical
//! layouts).
#![cfg(not(target_arch = "wasm32"))]

use mimium_lang::{
    Config, ExecContext,
    compiler::WasmOutput,
    runtime::{
        DspRuntime, ProgramPayload, Time,
        wasm::engine::{WasmDspRuntime, WasmEngine},
    },
};
use state_tree::{StateStoragePatchPlan, patch::CopyFromPatch};

fn compile(src: &str) -> WasmOutput {
    let mut ctx = ExecContext::new([].into_iter(), None, Config::default());
    ctx.prepare_compiler();
    ctx.get_compiler()
        .unwrap()
        .emit_wasm(src)
        .unwrap_or_else(|_| panic!("compile error"))
}

fn boot(out: &WasmOutput) -> WasmDspRuntime {
    let mut engine = WasmEngine::new(&out.ext_fns, None).unwrap();
    engine.load_module(&out.bytes).unwrap();
    let mut rt = WasmDspRuntime::new(engine, out.io_channels, out.dsp_state_skeleton.clone());
    rt.run_main().unwrap();
    rt
}

fn tick(rt: &mut WasmDspRuntime, from: u64, times: u64) -> Vec<f64> {
    (from..from + times)
        .map(|t| {
            assert_eq!(rt.run_dsp(Time(t)), 0, "dsp tick failed");
            rt.get_output(1)[0]
        })
        .collect()
}

/// Same steps as `FileRunner::prepare_hot_swap_wasm_payload` in mimium-cli.
fn payload(old: &WasmOutput, new: &WasmOutput) -> ProgramPayload {
    let mut engine = WasmEngine::new(&new.ext_fns, None).unwrap();
    engine.load_module(&new.bytes).unwrap();
    let mut prewarm = WasmDspRuntime::new(engine, None, None);
    prewarm.run_main().unwrap();
    let prewarmed_global_state = prewarm
        .engine_mut()
        .get_global_state_data()
        .map(|d| d.to_vec())
        .unwrap();

    let old_skel = old.dsp_state_skeleton.clone().unwrap();
    let new_skel = new.dsp_state_skeleton.clone().unwrap();
    let total_size = new_skel.total_size() as usize;
    let state_patch_plan = state_tree::build_state_storage_patch_plan(old_skel, new_skel)
        .unwrap_or(StateStoragePatchPlan {
            total_size,
            patches: vec![CopyFromPatch {
                src_addr: 0,
                dst_addr: 0,
                size: total_size,
            }],
        });

    ProgramPayload::WasmModule {
        bytes: new.bytes.clone(),
        prepared_engine: Box::new(prewarm.into_engine()),
        dsp_state_skeleton: new.dsp_state_skeleton.clone(),
        state_patch_plan,
        prewarmed_global_state,
    }
}

const COUNTER: &str = "
fn counter(){ self + 1.0 }
fn dsp(){ counter() }
";
const COUNTER_AND_MEM: &str = "
fn counter(){ self + 1.0 }
fn dsp(){ counter() + mem(100.0) }
";
const HOLD: &str = "
fn dsp(){ mem(7.0) }
";
const SHORT_DELAY: &str = "
fn dsp(){ delay(4.0, 1.0, 2.0) }
";
const LONG_DELAY: &str = "
fn dsp(){ delay(16.0, 1.0, 2.0) }
";

#[test]
fn swap_before_first_tick_wasm() {
    let old = compile(COUNTER);
    let new = compile(COUNTER_AND_MEM);
    let mut rt = boot(&old);
    assert!(rt.try_hot_swap(payload(&old, &new)));
    assert_eq!(tick(&mut rt, 0, 3), vec![1.0, 102.0, 103.0]);
}
