use mimium_lang::ExecContext;
use mimium_lang::Config;

#[test]
fn string_literal_survives_rust_codegen() {
    let src = r#"
fn dsp(){
    let s = "what? memory.wav"
    1.0
}
"#;
    let mut ctx = ExecContext::new([].into_iter(), None, Config::default());
    ctx.prepare_compiler();
    let out = ctx.get_compiler().unwrap().emit_rust(src).expect("emit_rust failed");
    let hits: Vec<&str> = out.source.lines().filter(|l| l.contains("alloc_string")).collect();
    println!("{hits:#?}");
    assert!(out.source.contains("\"what? memory.wav\""), "the literal was rewritten: {hits:?}");
}
